/* pthread model for slice/partition obligations: a created worker runs to completion synchronously (thread
 * interleavings are C06/C13's concurrency obligations); every (routine,arg) pair is recorded for the harness. */
#include <pthread.h>
#include <stddef.h>
#define LSV_MAXTH 64
void *(*lsv_th_fn[LSV_MAXTH])(void *); void *lsv_th_arg[LSV_MAXTH]; unsigned lsv_th_n; unsigned lsv_th_joined;
int pthread_create(pthread_t *t, const pthread_attr_t *a, void *(*f)(void *), void *arg){
  if(lsv_th_n < LSV_MAXTH){ lsv_th_fn[lsv_th_n] = f; lsv_th_arg[lsv_th_n] = arg; }
  *t = (pthread_t)(lsv_th_n + 1); lsv_th_n++;
  f(arg); return 0; }
int pthread_join(pthread_t t, void **r){ lsv_th_joined++; return 0; }
void pthread_exit(void *r){ }
