/* native replay only: default definitions of the renamed thread entry points (forward to libpthread) */
#undef pthread_create
#undef pthread_join
#undef pthread_exit
#include <pthread.h>
int lsv_pthread_create(pthread_t *t, const pthread_attr_t *a, void *(*f)(void *), void *arg){ return pthread_create(t, a, f, arg); }
int lsv_pthread_join(pthread_t t, void **r){ return pthread_join(t, r); }
void lsv_pthread_exit(void *r){ pthread_exit(r); }
