/* pow(-1, k) with an integral k, as used by the Laplace expansion */
double pow(double b, double e){ long k = (long)e; __CPROVER_assert(b == -1.0 && (double)k == e, "pow model: only (-1)^integer"); return (k % 2) ? -1.0 : 1.0; }
