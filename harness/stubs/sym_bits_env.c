/* environment for E-BITS obligations that reach isfinite(): goto-cc leaves the builtin without a body */
int __builtin_isfinite(double x){ return __CPROVER_isfinited(x); }
