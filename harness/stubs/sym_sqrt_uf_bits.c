/* E-BITS safety runs: sqrt as a deterministic uninterpreted function (its value is irrelevant to memory safety) */
double __CPROVER_uninterpreted_lsvsqrtb(double);
double sqrt(double x){ return __CPROVER_uninterpreted_lsvsqrtb(x); }
