/* havoc models of the dot-product kernels for obligations that are purely about indices, labels and bounds:
 * the kernels write ARBITRARY values into exactly the cells the real ones write (an over-approximation of their
 * results, so a pass is sound); the real bodies are removed with goto-instrument --remove-function-body. */
#include "matrix.h"
#include "vector.h"
double nondet_double(void);
void MatrixDVectorDotProduct(matrix *m, dvector *v, dvector *p){ __CPROVER_assert(m->col==v->size, "kernel precondition: cols = vector size"); for(size_t i=0;i<m->row;i++) p->data[i]=nondet_double(); }
void DVectorMatrixDotProduct(matrix *m, dvector *v, dvector *p){ __CPROVER_assert(m->row==v->size, "kernel precondition: rows = vector size"); for(size_t j=0;j<m->col;j++) p->data[j]=nondet_double(); }
double DVectorDVectorDotProd(dvector *a, dvector *b){ __CPROVER_assert(a->size==b->size, "kernel precondition: equal sizes"); return nondet_double(); }
double log(double x){ return nondet_double(); }
double exp(double x){ return nondet_double(); }
double sqrt(double x){ return nondet_double(); }
