/* environment for E-REAL obligations that only COMPARE square roots: sqrt is abstracted to an arbitrary non-negative,
 * strictly increasing function that is 0 at 0 (instantiated pairwise over the calls of the run). Every such function is
 * admitted, the real root among them: a sound over-approximation that keeps the VC free of s*s == x. */
#include <stddef.h>
double nondet_double(void);
int __builtin_isfinite(double x){ return 1; }
int __builtin_isnan(double x){ return 0; }
int __builtin_isinf(double x){ return 0; }
int __builtin_isinf_sign(double x){ return 0; }
#define LSV_NSQ 24
static double lsv_sq_a[LSV_NSQ], lsv_sq_r[LSV_NSQ]; static unsigned lsv_sq_n;
double sqrt(double x){
  double s = nondet_double();
  __CPROVER_assume(s >= 0.0 && ((x == 0.0) == (s == 0.0)));
  for(unsigned k = 0; k < lsv_sq_n && k < LSV_NSQ; k++)
    __CPROVER_assume(((x < lsv_sq_a[k]) == (s < lsv_sq_r[k])) && ((x == lsv_sq_a[k]) == (s == lsv_sq_r[k])));
  __CPROVER_assume(lsv_sq_n < LSV_NSQ);
  lsv_sq_a[lsv_sq_n] = x; lsv_sq_r[lsv_sq_n] = s; lsv_sq_n++;
  return s;
}
