/* environment for E-REAL obligations: IEEE classification is E-BITS' business; sqrt is the exact real root, modelled
 * as an uninterpreted function (so equal arguments give equal roots) constrained by s >= 0 and s*s == x */
#include <stddef.h>
double __CPROVER_uninterpreted_lsvsqrt(double);
int __builtin_isfinite(double x){ return 1; }
int __builtin_isnan(double x){ return 0; }
int __builtin_isinf(double x){ return 0; }
int __builtin_isinf_sign(double x){ return 0; }
double sqrt(double x){ double s = __CPROVER_uninterpreted_lsvsqrt(x); __CPROVER_assume(s >= 0.0 && s*s == x); return s; }
