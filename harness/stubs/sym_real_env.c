/* environment for E-REAL obligations: IEEE classification is E-BITS' business; sqrt is the exact real root:
 * a fresh value s with s >= 0 and s*s == x (keeps the VC in pure nonlinear real arithmetic; obligations that need
 * "equal arguments give equal roots" as a congruence use sym_real_env_uf.c instead) */
#include <stddef.h>
double nondet_double(void);
int __builtin_isfinite(double x){ return 1; }
int __builtin_isnan(double x){ return 0; }
int __builtin_isinf(double x){ return 0; }
int __builtin_isinf_sign(double x){ return 0; }
double sqrt(double x){ double s = nondet_double(); __CPROVER_assume(s >= 0.0 && s*s == x); return s; }
