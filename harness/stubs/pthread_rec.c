/* recording pthread model: pthread_create stores (routine,arg) and calls the harness hook lsv_on_create(k, arg), which
 * decides whether to run the worker; nothing runs concurrently (interleavings are separate obligations). */
#include <pthread.h>
#include <stddef.h>
void lsv_on_create(unsigned k, void *(*f)(void *), void *arg);
unsigned lsv_th_n, lsv_th_joined;
int pthread_create(pthread_t *t, const pthread_attr_t *a, void *(*f)(void *), void *arg){
  *t = (pthread_t)(lsv_th_n + 1); lsv_on_create(lsv_th_n, f, arg); lsv_th_n++; return 0; }
int pthread_join(pthread_t t, void **r){ lsv_th_joined++; return 0; }
void pthread_exit(void *r){ }
