/* Contract model of the part of the SQLite C API and of snprintf that src/io.c uses (symbolic runs only; native replays
 * link the real libsqlite3 and the real libc).
 *
 * What the model states (all of it is part of the claim, see DESIGN.md C16):
 *  - a database is a set of tables per PATH (it persists between open/close: that is the point of the property),
 *    a table is a list of REAL values in insertion (rowid) order;
 *  - the statement is recognised from the text io.c builds at run time (the text is concrete in every run):
 *      CREATE TABLE [IF NOT EXISTS] <t> (...)  creates <t> when absent; with IF NOT EXISTS an existing <t> is left as it is
 *      INSERT INTO <t> (value) VALUES (<lit>)  appends one row; fails when <t> does not exist
 *      SELECT value FROM <t>                   yields the rows of <t> in rowid order; fails when <t> does not exist
 *      DROP TABLE [IF EXISTS] <t>              removes <t>
 *      DELETE FROM <t>                         removes the rows of <t>
 *      SELECT name FROM sqlite_master ...      yields the names of the existing tables (text column)
 *      any other SELECT                        changes nothing (a SELECT never modifies a database); delivering its rows to
 *                                              an sqlite3_exec callback is not modelled (inconclusive when a callback is given)
 *      SELECT COUNT(*) FROM <t>                yields the number of rows of <t>
 *      BEGIN/COMMIT/END/PRAGMA/VACUUM          succeed, change nothing
 *      anything else                           the model gives up: lsv_sql_unsupported is set and the harness reports the
 *                                              run as inconclusive (never as a violation)
 *  - snprintf: a format that is one of the statement templates above with a single %s (table name) and at most one
 *    floating conversion is not expanded into characters: the model keeps (template kind, name argument, formatted double)
 *    for the buffer and sqlite3_exec/prepare look the buffer up (this is what keeps symbolic execution tractable: 29 tables
 *    x 100-character statements otherwise). Every other format is expanded character by character (%s copied, a floating
 *    conversion becomes the placeholder "#<id>") and the statement is parsed from those characters. A destination buffer that
 *    is too small truncates the text as the real snprintf does (the model gives up only when a number is involved: the
 *    placeholder does not have the width of the real digits).
 *  - the value of an INSERT literal is the double that was formatted into it: the "%.18f" conversion and SQLite's decimal
 *    parser are NOT encoded (libc / SQLite internals).
 *  - locks: a SELECT statement that has returned a row keeps a shared lock until it reaches SQLITE_DONE, is reset or finalized
 *    (closing the connection does not release it); meanwhile writes through another connection fail with SQLITE_BUSY and
 *    DROP TABLE through the same connection fails with SQLITE_LOCKED.
 *  - sqlite3_bind_double on a statement without parameters fails with SQLITE_RANGE and changes nothing.
 */
/* the model is not the code under test: none of CBMC's standard checks is instrumented in this file (they stay on in src/) */
#pragma CPROVER check push
#pragma CPROVER check disable "pointer"
#pragma CPROVER check disable "bounds"
#pragma CPROVER check disable "pointer-overflow"
#pragma CPROVER check disable "signed-overflow"
#pragma CPROVER check disable "unsigned-overflow"
#pragma CPROVER check disable "conversion"
#pragma CPROVER check disable "pointer-primitive"
#pragma CPROVER check disable "undefined-shift"
#pragma CPROVER check disable "div-by-zero"
#include <stdarg.h>
#include <stddef.h>
#include <stdlib.h>
#include <sqlite3.h>

#define LSV_NPATH 2
#ifndef LSV_MAXT
#define LSV_MAXT 32
#endif
#ifndef LSV_MAXR
#define LSV_MAXR 40
#endif
#define LSV_NAME 40

enum { K_BUSY = -2, K_ERR = -1, K_DONE = 0, K_INSERT = 1, K_SELVAL = 2, K_SELNAMES = 3, K_NOP = 4, K_CREATE = 5, K_CREATE_INE = 6, K_DROP = 7, K_DROP_IE = 8, K_DELETE = 9, K_COUNT = 10 };

struct lsv_table { int used; const char *name; size_t n; double *v; };      /* rows: one allocation per table (keeps the directory small) */
static struct lsv_table lsv_db[LSV_NPATH][LSV_MAXT];
int lsv_sql_unsupported = 0;      /* read by the harness */
int lsv_sql_overflow = 0;         /* model capacity exceeded: also inconclusive */

struct sqlite3 { int path; int open; int nactive; };
struct sqlite3_stmt { int kind; int path; int tab; size_t cur; int live; double val; int hasval; struct sqlite3 *db; int active; };
/* read locks: a statement that has returned a row and has not yet run to SQLITE_DONE, been reset or been finalized keeps a
 * shared lock on the file. While ANOTHER connection holds one, a statement that writes fails with SQLITE_BUSY; while the SAME
 * connection has one, DROP TABLE fails with SQLITE_LOCKED. sqlite3_close does not release the locks of unfinalized statements. */
static int lsv_active[LSV_NPATH];
static void set_active(struct sqlite3_stmt *s, int a){ if(s->active != a){ s->active = a; s->db->nactive += a ? 1 : -1; lsv_active[s->path] += a ? 1 : -1; } }
static int write_blocked(struct sqlite3 *db){ return lsv_active[db->path] - db->nactive > 0; }

/* the statement most recently built by snprintf */
static struct { char id; int kind; const char *name; double val; int hasval; } lsv_last;      /* id: the record is found again through the CONTENT of the buffer
   ("\001<id>" for a template, "#<id>" where the number goes in expanded text): comparing the buffer's address would compare against dangling pointers */
static char next_id(void){ lsv_last.id = (char)(lsv_last.id >= 120 ? 2 : lsv_last.id + 1); if(lsv_last.id < 2) lsv_last.id = 2; return lsv_last.id; }

/* ------------------------------------------------------------------ strings (all concrete) */
static int starts(const char *s, const char *p){ size_t i = 0; for(; p[i] != 0; i++) if(s[i] != p[i]) return 0; return 1; }
static int streq(const char *a, const char *b){ size_t i = 0; for(; a[i] != 0; i++) if(a[i] != b[i]) return 0; return b[i] == 0; }
static size_t slen(const char *s){ size_t i = 0; while(s[i] != 0) i++; return i; }
static const char *skipsp(const char *s){ while(*s == ' ') s++; return s; }
static const char *ident(const char *s){       /* copy of the identifier at s */
  size_t k = 0; while(s[k] != 0 && s[k] != ' ' && s[k] != ';' && s[k] != '(') k++;
  char *out = malloc(k + 1); __CPROVER_assume(out != 0);
  for(size_t i = 0; i < k; i++) out[i] = s[i];
  out[k] = 0; return out;
}

/* ------------------------------------------------------------------ statement templates (format strings) */
/* kind of a FORMAT with exactly one %s where the table name goes (and, for INSERT, one floating conversion); 0 = not a template.
 * Exact texts first (their length is a compile-time constant), the ones io.c uses most often at the top. */
#define TPL(text, kind) if(f[0] == (text)[0] && streq(f, text)){ *len = sizeof(text) - 1; return kind; }
static int fmt_lookup(const char *f, size_t *len){
#ifndef LSV_NO_TEMPLATES
  TPL("INSERT INTO %s (value) VALUES (%.18f);", K_INSERT)
  TPL("CREATE TABLE IF NOT EXISTS %s (id INTEGER PRIMARY KEY AUTOINCREMENT, value REAL);", K_CREATE_INE)
  TPL("SELECT value FROM %s;", K_SELVAL)
  TPL("DROP TABLE IF EXISTS %s;", K_DROP_IE)
  TPL("SELECT COUNT(*) FROM %s;", K_COUNT) TPL("SELECT COUNT(*) FROM %s", K_COUNT) TPL("SELECT count(*) FROM %s;", K_COUNT)
  TPL("INSERT INTO %s (value) VALUES (%.17g);", K_INSERT) TPL("INSERT INTO %s (value) VALUES (%.17e);", K_INSERT) TPL("INSERT INTO %s (value) VALUES (%.20f);", K_INSERT)
  TPL("INSERT INTO %s (value) VALUES (%f);", K_INSERT) TPL("INSERT INTO %s (value) VALUES (%.18f)", K_INSERT)
  TPL("SELECT value FROM %s", K_SELVAL) TPL("SELECT value FROM %s ORDER BY id;", K_SELVAL) TPL("SELECT value FROM %s ORDER BY id ASC;", K_SELVAL) TPL("SELECT value FROM %s ORDER BY rowid;", K_SELVAL)
  TPL("DROP TABLE IF EXISTS %s", K_DROP_IE) TPL("DROP TABLE %s;", K_DROP) TPL("DROP TABLE %s", K_DROP)
  TPL("DELETE FROM %s;", K_DELETE) TPL("DELETE FROM %s", K_DELETE)
  TPL("CREATE TABLE IF NOT EXISTS %s;", K_CREATE_INE)
  if(starts(f, "CREATE TABLE IF NOT EXISTS %s (")){ *len = slen(f); for(size_t i = 30; i < *len; i++) if(f[i] == '%') return 0; return K_CREATE_INE; }
  if(starts(f, "CREATE TABLE %s (")){ *len = slen(f); for(size_t i = 17; i < *len; i++) if(f[i] == '%') return 0; return K_CREATE; }
#endif
  *len = 0; return 0;
}

/* ------------------------------------------------------------------ snprintf */
int snprintf(char *buf, size_t size, const char *fmt, ...)
{
  va_list ap; va_start(ap, fmt);
  size_t flen; int tk = fmt_lookup(fmt, &flen);
  if(tk != 0){
    /* a statement template: (kind, name, double) instead of characters; length = text length with a two-character number */
    va_list ap2; va_copy(ap2, ap);
    const char *name = va_arg(ap2, const char *);
    size_t o = flen - 2 + slen(name);
    double d = 0;
    if(tk == K_INSERT){
      d = va_arg(ap2, double);
      size_t conv = 0; for(size_t i = flen; i > 0; i--) if(fmt[i - 1] == '%'){ conv = flen - (i - 1); break; }   /* "%.18f);" : characters from the last % */
      size_t tail = 0; for(size_t i = flen; i > 0; i--){ char c = fmt[i - 1]; if(c == 'f' || c == 'g' || c == 'e'){ tail = flen - i; break; } }
      o = o - (conv - tail) + 2;
    }
    va_end(ap2);
    if(buf == 0){ va_end(ap); return (int)o; }                   /* length query */
    if(size >= o + 1 && size >= 3){
      lsv_last.val = d; lsv_last.hasval = (tk == K_INSERT);
      buf[0] = 1; buf[1] = next_id(); buf[2] = 0;
      lsv_last.kind = tk; lsv_last.name = name;
      va_end(ap);
      return (int)o;
    }
    /* destination too small: the text is truncated - expand it character by character below */
  }
  /* general case: expand character by character */
  size_t o = 0; int hasval = 0; double dv = 0;
  for(size_t i = 0; fmt[i] != 0; i++){
    if(fmt[i] != '%'){ if(buf && o + 1 < size) buf[o] = fmt[i]; o++; continue; }
    i++;
    if(fmt[i] == '%'){ if(buf && o + 1 < size) buf[o] = '%'; o++; continue; }
    if(fmt[i] == 's'){ const char *s = va_arg(ap, const char *); for(size_t k = 0; s[k] != 0; k++){ if(buf && o + 1 < size) buf[o] = s[k]; o++; } continue; }
    while(fmt[i] == '.' || fmt[i] == '-' || fmt[i] == '+' || fmt[i] == 'l' || fmt[i] == 'z' || fmt[i] == 'L' || (fmt[i] >= '0' && fmt[i] <= '9')) i++;
    if(fmt[i] == 'f' || fmt[i] == 'g' || fmt[i] == 'e' || fmt[i] == 'E' || fmt[i] == 'G'){
      dv = va_arg(ap, double); hasval++;
      if(buf && o + 1 < size) buf[o] = '#';
      o++;
      if(buf && o + 1 < size) buf[o] = next_id();
      o++;
    } else { (void)va_arg(ap, long); if(buf && o + 1 < size) buf[o] = '@'; o++; if(buf) lsv_sql_unsupported = 1; }
  }
  if(buf && size > 0) buf[o < size ? o : size - 1] = 0;
  if(buf && hasval){ if(size < o + 1 || hasval > 1) lsv_sql_unsupported = 1;      /* a truncated or second number: the placeholder does not have the width of the real text */
    lsv_last.kind = 0; lsv_last.val = dv; lsv_last.hasval = hasval; }
  va_end(ap);
  return (int)o;
}

/* ------------------------------------------------------------------ the database */
static int find_table(int path, const char *name){
  for(int t = 0; t < LSV_MAXT; t++) if(lsv_db[path][t].used && streq(lsv_db[path][t].name, name)) return t;
  return -1;
}
static void do_insert(int path, int t, double v){
  struct lsv_table *T = &lsv_db[path][t];
  if(T->n >= LSV_MAXR){ lsv_sql_overflow = 1; return; }
  T->v[T->n] = v; T->n++;
}
/* apply a statement that needs no stepping, or resolve the table of one that does. Returns K_DONE / K_INSERT / K_SELVAL / K_ERR */
static int apply(int path, int kind, const char *name, int *tab){
  int t = find_table(path, name);
  if(kind == K_CREATE || kind == K_CREATE_INE){
    if(t >= 0) return kind == K_CREATE_INE ? K_DONE : K_ERR;
    for(t = 0; t < LSV_MAXT; t++) if(!lsv_db[path][t].used){ lsv_db[path][t].used = 1; lsv_db[path][t].n = 0; lsv_db[path][t].name = ident(name);
      lsv_db[path][t].v = malloc(LSV_MAXR * sizeof(double)); __CPROVER_assume(lsv_db[path][t].v != 0); return K_DONE; }      /* own copy: the caller's string may not outlive the call */
    lsv_sql_overflow = 1; return K_DONE;
  }
  if(kind == K_DROP || kind == K_DROP_IE){
    if(t < 0) return kind == K_DROP_IE ? K_DONE : K_ERR;
    lsv_db[path][t].used = 0; lsv_db[path][t].n = 0; return K_DONE;
  }
  if(kind == K_DELETE){ if(t < 0) return K_ERR; lsv_db[path][t].n = 0; return K_DONE; }
  if(kind == K_INSERT || kind == K_SELVAL || kind == K_COUNT){ if(t < 0) return K_ERR; *tab = t; return kind; }
  return K_ERR;
}
/* statement given as text */
static int parse(const char *sql, const char **name){
  sql = skipsp(sql);
  if(starts(sql, "CREATE TABLE IF NOT EXISTS ")){ *name = ident(skipsp(sql + 27)); return K_CREATE_INE; }
  if(starts(sql, "CREATE TABLE ")){ *name = ident(skipsp(sql + 13)); return K_CREATE; }
  if(starts(sql, "DROP TABLE IF EXISTS ")){ *name = ident(skipsp(sql + 21)); return K_DROP_IE; }
  if(starts(sql, "DROP TABLE ")){ *name = ident(skipsp(sql + 11)); return K_DROP; }
  if(starts(sql, "DELETE FROM ")){ *name = ident(skipsp(sql + 12)); return K_DELETE; }
  if(starts(sql, "INSERT INTO ")){ *name = ident(skipsp(sql + 12)); return K_INSERT; }
  if(starts(sql, "SELECT value FROM ")){ *name = ident(skipsp(sql + 18)); return K_SELVAL; }
  if(starts(sql, "SELECT COUNT(*) FROM ")){ *name = ident(skipsp(sql + 21)); return K_COUNT; }
  if(starts(sql, "SELECT name FROM sqlite_master")) return K_SELNAMES;
  if(starts(sql, "SELECT ")) return K_NOP;
  if(starts(sql, "BEGIN") || starts(sql, "COMMIT") || starts(sql, "END") || starts(sql, "PRAGMA") || starts(sql, "VACUUM")) return K_DONE;
  lsv_sql_unsupported = 1; return K_NOP;
}
/* kind + table + literal value of the statement in <sql> */
static int statement(const char *sql, const char **name, double *val, int *hasval){
  *hasval = 0; *name = 0;
  if(sql[0] == 1){                                              /* built from a template by the snprintf model */
    if(sql[1] != lsv_last.id || lsv_last.kind == 0){ lsv_sql_unsupported = 1; return K_NOP; }   /* not the statement built last */
    *val = lsv_last.val; *hasval = lsv_last.hasval; *name = lsv_last.name; return lsv_last.kind;
  }
  int k = parse(sql, name);
  if(k == K_INSERT){                                            /* expanded text: the number is "#<id>" */
    for(size_t i = 0; sql[i] != 0; i++) if(sql[i] == '#'){ if(sql[i + 1] == lsv_last.id && lsv_last.kind == 0 && lsv_last.hasval == 1){ *val = lsv_last.val; *hasval = 1; } break; }
  }
  return k;
}

static int path_of(const char *filename){ return filename[0] == 'B' ? 1 : 0; }     /* the harness uses the paths "A..." and "B..." */

int sqlite3_open(const char *filename, sqlite3 **ppDb)
{
  struct sqlite3 *c = malloc(sizeof(struct sqlite3)); __CPROVER_assume(c != 0);      /* io.c leaks the connections whose close fails: no fixed pool */
  c->path = path_of(filename); c->open = 1; c->nactive = 0; *ppDb = c; return SQLITE_OK;
}
int sqlite3_close(sqlite3 *db){ if(db) db->open = 0; return SQLITE_OK; }      /* (fails with SQLITE_BUSY when statements are unfinalized: io.c ignores the result; their locks stay) */
const char *sqlite3_errmsg(sqlite3 *db){ return "model"; }
void sqlite3_free(void *p){ }

int sqlite3_exec(sqlite3 *db, const char *sql, int (*cb)(void*,int,char**,char**), void *arg, char **errmsg)
{
  const char *name; double val; int hasval, tab = -1;
  int k = statement(sql, &name, &val, &hasval);
  if(errmsg) *errmsg = 0;
  if(k == K_SELNAMES || k == K_NOP){ if(k == K_SELNAMES && cb != 0) lsv_sql_unsupported = 1; return SQLITE_OK; }   /* SELECT: nothing is modified; io.c's callback ignores its rows */
  if(k == K_DONE) return SQLITE_OK;
  if(k != K_SELVAL && k != K_COUNT){                            /* a statement that writes */
    if(write_blocked(db)) return SQLITE_BUSY;
    if((k == K_DROP || k == K_DROP_IE) && db->nactive > 0) return SQLITE_LOCKED;
  }
  k = apply(db->path, k, name, &tab);
  if(k == K_ERR) return SQLITE_ERROR;
  if(k == K_INSERT){ if(hasval == 1) do_insert(db->path, tab, val); else lsv_sql_unsupported = 1; }
  if((k == K_SELVAL || k == K_COUNT) && cb != 0) lsv_sql_unsupported = 1;
  return SQLITE_OK;
}

int sqlite3_prepare_v2(sqlite3 *db, const char *sql, int nByte, sqlite3_stmt **ppStmt, const char **pzTail)
{
  const char *name; double val; int hasval, tab = -1;
  struct sqlite3_stmt *s = malloc(sizeof(struct sqlite3_stmt));      /* io.c does not finalize its SELECT statements: no fixed pool */
  __CPROVER_assume(s != 0);
  int k = statement(sql, &name, &val, &hasval);
  s->path = db->path; s->tab = -1; s->cur = 0; s->live = 1; s->hasval = 0; s->val = 0; s->db = db; s->active = 0;
  if(k == K_SELNAMES || k == K_NOP || k == K_DONE){ s->kind = k == K_SELNAMES ? K_SELNAMES : K_NOP; *ppStmt = s; return SQLITE_OK; }
  if(k != K_INSERT && k != K_SELVAL && k != K_COUNT){ lsv_sql_unsupported = 1; s->kind = K_NOP; *ppStmt = s; return SQLITE_OK; }   /* DDL through prepare/step: not modelled */
  k = apply(db->path, k, name, &tab);
  if(k == K_ERR){ *ppStmt = 0; return SQLITE_ERROR; }
  s->kind = k; s->tab = tab;
  if(k == K_INSERT){ if(hasval == 1){ s->val = val; s->hasval = 1; } else lsv_sql_unsupported = 1; }
  *ppStmt = s; return SQLITE_OK;
}
int sqlite3_bind_double(sqlite3_stmt *s, int idx, double v){ return SQLITE_RANGE; }      /* the INSERT text has no '?' parameter */
int sqlite3_step(sqlite3_stmt *s)
{
  if(s == 0 || !s->live) return SQLITE_MISUSE;
  if(s->kind == K_INSERT){ if(write_blocked(s->db)) return SQLITE_BUSY; if(s->hasval){ do_insert(s->path, s->tab, s->val); s->hasval = 0; } return SQLITE_DONE; }
  if(s->kind == K_SELVAL){ if(s->cur < lsv_db[s->path][s->tab].n){ s->cur++; set_active(s, 1); return SQLITE_ROW; } set_active(s, 0); return SQLITE_DONE; }
  if(s->kind == K_COUNT){ if(s->cur == 0){ s->cur = 1; set_active(s, 1); return SQLITE_ROW; } set_active(s, 0); return SQLITE_DONE; }
  if(s->kind == K_SELNAMES){ while(s->cur < LSV_MAXT && !lsv_db[s->path][s->cur].used) s->cur++; if(s->cur < LSV_MAXT){ s->cur++; set_active(s, 1); return SQLITE_ROW; } set_active(s, 0); return SQLITE_DONE; }
  return SQLITE_DONE;
}
double sqlite3_column_double(sqlite3_stmt *s, int col){ if(s->kind == K_SELVAL && s->cur >= 1) return lsv_db[s->path][s->tab].v[s->cur - 1]; if(s->kind == K_COUNT && s->cur == 1) return (double)lsv_db[s->path][s->tab].n; lsv_sql_unsupported = 1; return 0.0; }
sqlite3_int64 sqlite3_column_int64(sqlite3_stmt *s, int col){ if(s->kind == K_COUNT && s->cur == 1) return (sqlite3_int64)lsv_db[s->path][s->tab].n; lsv_sql_unsupported = 1; return 0; }
int sqlite3_column_int(sqlite3_stmt *s, int col){ return (int)sqlite3_column_int64(s, col); }
const unsigned char *sqlite3_column_text(sqlite3_stmt *s, int col){ if(s->kind == K_SELNAMES && s->cur >= 1) return (const unsigned char *)lsv_db[s->path][s->cur - 1].name; lsv_sql_unsupported = 1; return (const unsigned char *)""; }
int sqlite3_finalize(sqlite3_stmt *s){ if(s){ set_active(s, 0); s->live = 0; free(s); } return SQLITE_OK; }
int sqlite3_reset(sqlite3_stmt *s){ if(s){ set_active(s, 0); s->cur = 0; } return SQLITE_OK; }
#pragma CPROVER check pop
