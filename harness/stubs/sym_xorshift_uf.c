/* xorshift128 as an uninterpreted function of its state (generate_seed stays concrete) */
#include <stdint.h>
struct xorshift128_state { uint32_t x[4]; };
uint32_t __CPROVER_uninterpreted_lsvxs(uint32_t, uint32_t, uint32_t, uint32_t);
uint32_t xorshift128(struct xorshift128_state *st){ return __CPROVER_uninterpreted_lsvxs(st->x[0], st->x[1], st->x[2], st->x[3]); }
