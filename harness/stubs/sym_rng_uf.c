/* schedule obligations (C06): the pure arithmetic leaves of the generator are uninterpreted functions (equal under the
 * abstraction => equal concretely); time() is a fixed constant */
#include <stdint.h>
#include <time.h>
struct xorshift128_state { uint32_t x[4]; };
uint32_t __CPROVER_uninterpreted_lsvgs(uint32_t);
uint32_t __CPROVER_uninterpreted_lsvxs(uint32_t, uint32_t, uint32_t, uint32_t);
uint32_t generate_seed(uint32_t s){ return __CPROVER_uninterpreted_lsvgs(s); }
uint32_t xorshift128(struct xorshift128_state *st){ return __CPROVER_uninterpreted_lsvxs(st->x[0], st->x[1], st->x[2], st->x[3]); }
time_t time(time_t *t){ return 12345; }
