/* typed word-wise memmove/memcpy model: CBMC's built-in memmove mis-copied an overlapping move (spurious
 * counterexample on UIVectorRemoveAt, measured); the library only moves arrays of 8-byte and 4-byte elements. */
#include <stddef.h>
#include <stdint.h>
void *memmove(void *dst, const void *src, size_t n){
  if((n % 8) == 0){ uint64_t *d = dst; const uint64_t *s = src; size_t k = n/8;
    if(d < s){ for(size_t i=0;i<k;i++) d[i]=s[i]; } else { for(size_t i=k;i>0;i--) d[i-1]=s[i-1]; } }
  else if((n % 4) == 0){ uint32_t *d = dst; const uint32_t *s = src; size_t k = n/4;
    if(d < s){ for(size_t i=0;i<k;i++) d[i]=s[i]; } else { for(size_t i=k;i>0;i--) d[i-1]=s[i-1]; } }
  else { unsigned char *d = dst; const unsigned char *s = src;
    if(d < s){ for(size_t i=0;i<n;i++) d[i]=s[i]; } else { for(size_t i=n;i>0;i--) d[i-1]=s[i-1]; } }
  return dst;
}
