/* E-BITS model of sqrt for IEEE obligations whose subject is the ARGUMENT handed to sqrt (variance-like quantities): the result
 * is an arbitrary value with the sign behaviour of the IEEE square root (sqrt(x) > 0 for x > 0, sqrt(0) = 0, NaN for x < 0 or NaN);
 * the last argument is recorded so that a harness can assert on it without bit-blasting a square root. */
double nondet_double(void);
double lsv_sqrt_last_arg;
double sqrt(double x){ lsv_sqrt_last_arg = x; double s = nondet_double();
  if(x > 0.0) __CPROVER_assume(s > 0.0 && s == s);
  else if(x == 0.0) __CPROVER_assume(s == 0.0);
  else __CPROVER_assume(s != s);
  return s; }
