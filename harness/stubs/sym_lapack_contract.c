/* LAPACK contract stubs: each routine writes ARBITRARY doubles to exactly the extents LAPACK documents for its outputs
 * and returns an arbitrary info >= 0 (workspace queries return a small positive size). Reads of the inputs are made
 * explicit so that CBMC checks their extents too. Numerical content of LAPACK is outside every claim. */
#include <stddef.h>
double nondet_double(void); int nondet_int(void);
static double touch; /* forces reads */
void dgeev_(char *jobvl, char *jobvr, int *n, double *a, int *lda, double *wr, double *wi, double *vl, int *ldvl, double *vr, int *ldvr, double *work, int *lwork, int *info){
  int N = *n;
  if(*lwork == -1){ work[0] = 4.0 * (N > 0 ? N : 1); *info = 0; return; }
  for(int i=0;i<(*lda)*N;i++){ touch = a[i]; a[i] = nondet_double(); }
  for(int i=0;i<N;i++){ wr[i] = nondet_double(); wi[i] = nondet_double(); }
  if(jobvl[0]=='V') for(int i=0;i<(*ldvl)*N;i++) vl[i] = nondet_double();
  if(jobvr[0]=='V') for(int i=0;i<(*ldvr)*N;i++) vr[i] = nondet_double();
  for(int i=0;i<*lwork;i++) work[i] = nondet_double();
  int inf = nondet_int(); __CPROVER_assume(inf >= 0 && inf <= N); *info = inf;
}
void dgesdd_(char *jobz, int *m, int *n, double *a, int *lda, double *s, double *u, int *ldu, double *vt, int *ldvt, double *work, int *lwork, int *iwork, int *info){
  int M = *m, N = *n; int mn = M < N ? M : N;
  if(*lwork == -1){ work[0] = 8.0 * (M > N ? M : N) + 8.0; *info = 0; return; }
  for(int i=0;i<(*lda)*N;i++){ touch = a[i]; a[i] = nondet_double(); }
  for(int i=0;i<mn;i++) s[i] = nondet_double();
  /* jobz='S': U is M x min(M,N) (ldu >= M), VT is min(M,N) x N (ldvt >= min(M,N)); jobz='A': U is M x M, VT is N x N */
  int ucols = (jobz[0]=='A') ? M : mn;
  for(int i=0;i<(*ldu)*ucols;i++) u[i] = nondet_double();
  for(int i=0;i<(*ldvt)*N;i++) vt[i] = nondet_double();
  for(int i=0;i<8*mn;i++) iwork[i] = nondet_int();
  *info = 0;
}
void dgetrf_(int *m, int *n, double *a, int *lda, int *ipiv, int *info){
  int M = *m, N = *n; int mn = M < N ? M : N;
  for(int i=0;i<(*lda)*N;i++){ touch = a[i]; a[i] = nondet_double(); }
  for(int i=0;i<mn;i++){ int p = nondet_int(); __CPROVER_assume(p >= 1 && p <= M); ipiv[i] = p; }
  int inf = nondet_int(); __CPROVER_assume(inf >= 0 && inf <= mn); *info = inf;
}
void dgetri_(int *n, double *a, int *lda, int *ipiv, double *work, int *lwork, int *info){
  int N = *n;
  if(*lwork == -1){ work[0] = (double)(N > 0 ? N : 1); *info = 0; return; }
  for(int i=0;i<N;i++) touch = (double)ipiv[i];
  for(int i=0;i<(*lda)*N;i++){ touch = a[i]; a[i] = nondet_double(); }
  for(int i=0;i<*lwork;i++) work[i] = nondet_double();
  int inf = nondet_int(); __CPROVER_assume(inf >= 0 && inf <= N); *info = inf;
}
