/* LDA bookkeeping obligations: the eigen-decomposition and the SVD-based pseudo-inverse are replaced by contract stubs
 * (arbitrary results of the documented shapes); they do not feed the priors / class means. */
#include "matrix.h"
double nondet_double(void);
void EVectEval(matrix *m, dvector *eval, matrix *evect){ size_t n=m->row; DVectorResize(eval,n); ResizeMatrix(evect,n,n);
  for(size_t i=0;i<n;i++){ eval->data[i]=nondet_double(); for(size_t j=0;j<n;j++) evect->data[i][j]=nondet_double(); } }
void MatrixPseudoinversion(matrix *m, matrix *inv){ ResizeMatrix(inv,m->col,m->row); for(size_t i=0;i<inv->row;i++)for(size_t j=0;j<inv->col;j++) inv->data[i][j]=nondet_double(); }
