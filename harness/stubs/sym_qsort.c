/* qsort model: insertion sort over the caller's array calling the REAL comparator (element sizes 4 and 8 only) */
#include <stddef.h>
#include <stdint.h>
void qsort(void *base, size_t n, size_t sz, int (*cmp)(const void *, const void *)){
  if(sz == 8){ uint64_t *a = base; for(size_t i=1;i<n;i++){ uint64_t x=a[i]; size_t j=i; while(j>0 && cmp(&a[j-1], &x) > 0){ a[j]=a[j-1]; j--; } a[j]=x; } }
  else if(sz == 4){ uint32_t *a = base; for(size_t i=1;i<n;i++){ uint32_t x=a[i]; size_t j=i; while(j>0 && cmp(&a[j-1], &x) > 0){ a[j]=a[j-1]; j--; } a[j]=x; } }
  else __CPROVER_assert(0, "qsort model: unsupported element size");
}
