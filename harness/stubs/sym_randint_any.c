/* arbitrary in-range random integer (every seed) */
int nondet_int(void);
int randInt(int low, int high){ int v = nondet_int(); __CPROVER_assume(v >= low && v < high); return v; }
