/* C10: (a) E-BITS: MatrixCheck turns NaN/+-Inf cells into the MISSING code and leaves finite cells alone;
 * (b) E-REAL: TensorPreprocess equals MatrixPreprocess applied block by block. */
#include "lsv.h"
#include "matrix.h"
#include "tensor.h"
#include "list.h"
#include "preprocessing.h"
#include "numeric.h"
void harness(void){
#if HP_WHICH==0
  matrix *m; NewMatrix(&m,HP_M,HP_C); double X[HP_M][HP_C];
  for(size_t i=0;i<HP_M;i++)for(size_t j=0;j<HP_C;j++){ X[i][j]=in_any_double(); m->data[i][j]=X[i][j]; }
  MatrixCheck(m);
  for(size_t i=0;i<HP_M;i++)for(size_t j=0;j<HP_C;j++){
    double v=X[i][j];
    if(v!=v || v-v!=0) CHECK(m->data[i][j]==(double)MISSING, "NaN/Inf cell becomes MISSING");
    else CHECK(m->data[i][j]==v, "finite cell unchanged");
  }
#else
  tensor *t,*tt; initTensor(&t); initTensor(&tt);
  for(size_t k=0;k<HP_O;k++){ AddTensorMatrix(t,HP_M,HP_C); AddTensorMatrix(tt,HP_M,HP_C); for(size_t i=0;i<HP_M;i++)for(size_t j=0;j<HP_C;j++) t->m[k]->data[i][j]=in_double(-1e6,1e6); }
  dvectorlist *la,*ls; initDVectorList(&la); initDVectorList(&ls);
  TensorPreprocess(t,HP_TYPE,la,ls,tt);
  CHECK(la->size==HP_O && ls->size==HP_O, "one stored vector per block");
  for(size_t k=0;k<HP_O;k++){
    matrix *tr; NewMatrix(&tr,HP_M,HP_C); dvector *a,*s; initDVector(&a); initDVector(&s);
    MatrixPreprocess(t->m[k],HP_TYPE,a,s,tr);
    CHECK(la->d[k]->size==a->size && ls->d[k]->size==s->size, "stored vector sizes agree");
    for(size_t j=0;j<a->size;j++) CHECK_EQ(la->d[k]->data[j], a->data[j], "block averages = matrix averages");
    for(size_t j=0;j<s->size;j++) CHECK_EQ(ls->d[k]->data[j], s->data[j], "block scalings = matrix scalings");
    for(size_t i=0;i<HP_M;i++)for(size_t j=0;j<HP_C;j++) CHECK_EQ(tt->m[k]->data[i][j], tr->data[i][j], "tensor preprocessing = matrix preprocessing block by block");
  }
#endif
  WITNESS();
}
