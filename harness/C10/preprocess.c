/* C10: MatrixPreprocess does what each option promises, for a concrete shape HP_M x HP_C, option HP_TYPE and a concrete
 * mask of MISSING-coded cells (bit i*HP_C+j of HP_MASK), with all other cell values symbolic in [-1e6,1e6] (E-REAL).
 * Property quantifier: column spread (the scaling statistic) >= 0.02 in magnitude, or the column is constant. */
#include "lsv.h"
#include "matrix.h"
#include "preprocessing.h"
#include "numeric.h"
#define MISS(i,j) (((HP_MASK) >> ((i)*HP_C+(j))) & 1)
#ifndef HP_APPLYONLY
#define HP_APPLYONLY 0
#endif
void harness(void){
  matrix *x, *tr, *tr2; NewMatrix(&x,HP_M,HP_C); NewMatrix(&tr,HP_M,HP_C); NewMatrix(&tr2,HP_M,HP_C);
  double X[HP_M][HP_C];
  for(size_t i=0;i<HP_M;i++)for(size_t j=0;j<HP_C;j++){ double v=in_double(-1e6,1e6); X[i][j]=v; x->data[i][j] = MISS(i,j) ? (double)MISSING : v; }
  dvector *avg,*sc; initDVector(&avg); initDVector(&sc);
#if HP_CONST
  for(size_t j=0;j<HP_C;j++)for(size_t i=1;i<HP_M;i++) ASSUME(MISS(i,j) || MISS(0,j) || X[i][j]==X[0][j]);   /* constant columns */
#endif
  MatrixPreprocess(x, HP_TYPE, avg, sc, tr);
#if HP_TYPE < 0
  CHECK(avg->size==0 && sc->size==0, "option -1 stores nothing");
  for(size_t i=0;i<HP_M;i++)for(size_t j=0;j<HP_C;j++) CHECK_EQ(tr->data[i][j], x->data[i][j], "option -1 copies");
#else
  CHECK(avg->size==HP_C && sc->size==HP_C, "one stored average and one stored scaling per column");
  for(size_t j=0;j<HP_C;j++){
    size_t n=0; double s=0; for(size_t i=HP_M;i>0;i--) if(!MISS(i-1,j)){ s+=X[i-1][j]; n++; }
    ASSUME(n>=2);
    ASSUME(s<=-1e-6 || s>=1e-6 || s==0);        /* documented tolerance of MatrixColAverage: |sum|<1e-6 is reported as 0 */
    double mean=s/n;
    CHECK_EQ(avg->data[j]*n, s, "stored average = mean of the non-missing training cells");
    double q=0, q2=0, mn=0, mx=0; int first=1;
    for(size_t i=HP_M;i>0;i--) if(!MISS(i-1,j)){ double d=X[i-1][j]-mean; q+=d*d; q2+=X[i-1][j]*X[i-1][j]; if(first||X[i-1][j]<mn) mn=X[i-1][j]; if(first||X[i-1][j]>mx) mx=X[i-1][j]; first=0; }
    double S=sc->data[j];
#if HP_TYPE==0
    CHECK_EQ(S, 1.0, "option 0: scaling 1");
#elif HP_TYPE==1
    CHECK(S>=0, "sdev >= 0"); CHECK_EQ(S*S*(n-1), q, "option 1: stored scaling = sample standard deviation");
#elif HP_TYPE==2
    CHECK(S>=0, "rms >= 0"); CHECK_EQ(S*S*n, q2, "option 2: stored scaling = root mean square");
#elif HP_TYPE==3
    CHECK(S>=0, "pareto >= 0"); CHECK_EQ(S*S*S*S*(n-1), q, "option 3: stored scaling = sqrt(sample standard deviation)");
#elif HP_TYPE==4
#if HP_MASK==0
    CHECK_EQ(S, mx-mn, "option 4: stored scaling = range");
#endif
#elif HP_TYPE==5
    CHECK_EQ(S, avg->data[j], "option 5: stored scaling = column mean");
#endif
#if HP_CONST
#if HP_TYPE!=5 && HP_TYPE!=2
    for(size_t i=0;i<HP_M;i++) if(!MISS(i,j)) CHECK_EQ(tr->data[i][j], 0.0, "constant column becomes exactly zero");
#else
    for(size_t i=0;i<HP_M;i++) if(!MISS(i,j)) CHECK_EQ(tr->data[i][j], 0.0, "constant column becomes exactly zero");
#endif
#else
#if HP_APPLYONLY
    /* apply = fit is claimed for EVERY scaling value (both paths must treat a small scaling alike) */
#elif HP_TYPE==5
    ASSUME(S>=1e-3 || S<=-1e-3);               /* level scaling divides by the column mean ("arbitrary offsets"): only the documented zero-scale guard applies */
#else
    ASSUME(S>=0.02 || S<=-0.02);               /* spread bound from the property */
#endif
    double colsum=0, colsq=0, tmn=0, tmx=0; first=1;
#if !HP_APPLYONLY
    for(size_t i=0;i<HP_M;i++) if(!MISS(i,j)){
      CHECK_EQ(tr->data[i][j]*S, X[i][j]-mean, "transformed cell = (x - mean)/scaling, unaffected by missing cells");
      colsum+=tr->data[i][j]; colsq+=tr->data[i][j]*tr->data[i][j];
      if(first||tr->data[i][j]<tmn) tmn=tr->data[i][j]; if(first||tr->data[i][j]>tmx) tmx=tr->data[i][j]; first=0; }
    CHECK_EQ(colsum, 0.0, "zero column mean");
#endif
#if HP_TYPE==1 && !HP_APPLYONLY
    CHECK_EQ(colsq, (double)(n-1), "option 1: unit sample standard deviation");
#elif HP_TYPE==4 && HP_MASK==0 && !HP_APPLYONLY
    CHECK_EQ(tmx-tmn, 1.0, "option 4: unit range");
#endif
#endif
  }
  /* apply the stored vectors to the same matrix: reproduces the training transform */
  MatrixPreprocess(x, -1, avg, sc, tr2);
  for(size_t i=0;i<HP_M;i++)for(size_t j=0;j<HP_C;j++){
#ifdef LSV_EXCL_C10_apply_missing
    if(MISS(i,j)) continue;
#endif
    CHECK_EQ(tr2->data[i][j], tr->data[i][j], "apply(stored)(same matrix) = fit transform");
  }
  /* apply to new rows: the same affine map */
  { matrix *nw,*tn; NewMatrix(&nw,1,HP_C); initMatrix(&tn); for(size_t j=0;j<HP_C;j++) nw->data[0][j]=in_double(-1e6,1e6);
    MatrixPreprocess(nw, -1, avg, sc, tn);
    CHECK(tn->row==1 && tn->col==HP_C, "apply sizes the output");
#if !HP_CONST && !HP_APPLYONLY
    for(size_t j=0;j<HP_C;j++) CHECK_EQ(tn->data[0][j]*sc->data[j], nw->data[0][j]-avg->data[j], "apply(new row) = (x - mean)/scaling");
#elif HP_APPLYONLY
    /* new rows get the same treatment as training rows: either the affine map or (scaling treated as null) zeros - decided per column exactly as at fit */
    for(size_t j=0;j<HP_C;j++){ int fit_zeroed=1; for(size_t i=0;i<HP_M;i++) if(!MISS(i,j) && !(tr->data[i][j]==0.0)) fit_zeroed=0;
      if(!fit_zeroed) CHECK_EQ(tn->data[0][j]*sc->data[j], nw->data[0][j]-avg->data[j], "a column scaled at fit is scaled at apply"); }
#else
    for(size_t j=0;j<HP_C;j++){ if(sc->data[j]<1e-3 && sc->data[j]>-1e-3) CHECK_EQ(tn->data[0][j], 0.0, "apply with a zero scaling gives zeros, not NaN/Inf"); }
#endif
  }
#endif
  WITNESS();
}
