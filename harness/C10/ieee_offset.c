/* C10 (E-BITS, IEEE-exact): column statistics on data riding on a large common offset (x = HP_OFFSET + k/16, k symbolic in
 * 0..15, not all equal): the sample standard deviation is positive, does not exceed the range, and its square agrees with the
 * centred two-pass definition to a relative 1e-6; autoscaling (option 1) therefore does not zero a column that has spread. */
#include "lsv.h"
#include "matrix.h"
#include "preprocessing.h"
void harness(void){
  matrix *m; NewMatrix(&m,HP_M,1); size_t k0=0; int differ=0; double mn=0,mx=0;
  for(size_t i=0;i<HP_M;i++){ size_t k=in_size(0,15); if(i==0) k0=k; else if(k!=k0) differ=1; double v=(double)(HP_OFFSET)+(double)k/16.0;    /* offsets >= 2^24: squares need more than 53 bits, so the arithmetic does round */ m->data[i][0]=v; if(i==0||v<mn) mn=v; if(i==0||v>mx) mx=v; }
  ASSUME(differ);
  dvector *sd; initDVector(&sd); MatrixColSDEV(m,sd);
  double s=sd->data[0];
  CHECK(s>0.0, "a column with spread has a positive sample standard deviation in IEEE arithmetic");
  extern double lsv_sqrt_last_arg; double var=lsv_sqrt_last_arg;      /* the variance MatrixColSDEV handed to sqrt */
  CHECK(var<=(mx-mn)*(mx-mn)*1.0000001, "sample variance does not exceed the squared range");
  { double mu=0; for(size_t i=0;i<HP_M;i++) mu+=m->data[i][0]; mu/=HP_M; double q=0; for(size_t i=HP_M;i>0;i--) q+=(m->data[i-1][0]-mu)*(m->data[i-1][0]-mu); q/=(HP_M-1);
    double d=var-q; CHECK(d<=1e-6*q && d>=-1e-6*q, "the variance under the root agrees with the centred definition to a relative 1e-6"); }
#if HP_PRE
  { matrix *tr; NewMatrix(&tr,HP_M,1); dvector *av,*sc; initDVector(&av); initDVector(&sc); MatrixPreprocess(m,1,av,sc,tr);
    int nz=0; for(size_t i=0;i<HP_M;i++) if(tr->data[i][0]!=0.0) nz=1; CHECK(nz, "autoscaling does not zero a column that has spread (>= 1/16)"); }
#endif
  WITNESS();
}
