/* C09: CPCA (E-REAL). HP_WHICH 0: one pass of the real CPCA loop from an ARBITRARY super score (guarded hook overwrites t at the
 * loop head, convergence verdict forced), 2 blocks of widths HP_W0 and HP_W1, HP_N objects, scaling -1 (E = X):
 *   super weights have unit norm, super score = block scores x super weights, stored block loadings are E_b' t / t't for the
 *   stored super score, scaling_factor^2 = block width, total explained variance = 100 t't / ss.
 * HP_WHICH 1: CPCAScorePredictor on a model with symbolic block loadings / super weights / stored averages and scalings of
 *   either sign: block score = E_b p_b/|p_b| / sqrt(width), super score = block scores x super weights, deflation by the super
 *   score and the (unnormalised) block loadings - the training step, so projecting the training tensor reproduces the scores. */
#include "lsv.h"
#include "matrix.h"
#include "tensor.h"
#include "list.h"
#include "cpca.h"
#include "memwrapper.h"
double calcConvergence(dvector *a, dvector *b){ return 0.0; }
static double Tin[HP_N];
static void loop_head(int site, void *a, void *b, void *c){ dvector *t=a; for(size_t i=0;i<HP_N;i++){ Tin[i]=in_double(-1e3,1e3); t->data[i]=Tin[i]; } }
static const size_t W[2]={HP_W0,HP_W1};
#ifndef HP_BSW
#define HP_BSW 1
#endif
void harness(void){
  lsci_verif_nproc=1;
  tensor *x; initTensor(&x); double E[2][HP_N][4];
  for(size_t k=0;k<2;k++){ AddTensorMatrix(x,HP_N,W[k]); for(size_t i=0;i<HP_N;i++)for(size_t j=0;j<W[k];j++){ E[k][i][j]=in_double(-1e3,1e3); x->m[k]->data[i][j]=E[k][i][j]; } }
  CPCAMODEL *m; NewCPCAModel(&m);
#if HP_WHICH==0
  lsci_verif_loop_head_cb=loop_head;
  CPCA(x,-1,1,m);
  CHECK(m->super_scores->row==HP_N && m->super_scores->col==1 && m->super_weights->row==2 && m->block_scores->order==1 && m->block_loadings->order==2 && m->scaling_factor->size==2, "model shapes");
  { double ww=0; for(size_t k=0;k<2;k++) ww+=m->super_weights->data[k][0]*m->super_weights->data[k][0]; CHECK_EQ(ww,1.0,"super weights have unit norm"); }
  for(size_t i=0;i<HP_N;i++){ double s=0; for(size_t k=0;k<2;k++) s+=m->block_scores->m[0]->data[i][k]*m->super_weights->data[k][0]; CHECK_EQ(m->super_scores->data[i][0], s, "super score = block scores x super weights"); }
  for(size_t k=0;k<2;k++){ CHECK_EQ(m->scaling_factor->data[k]*m->scaling_factor->data[k], (double)W[k], "block scaling factor = sqrt(block width)"); CHECK(m->scaling_factor->data[k]>0, "scaling factor positive"); }
  { double tt=0; for(size_t i=0;i<HP_N;i++) tt+=m->super_scores->data[i][0]*m->super_scores->data[i][0];
    for(size_t k=0;k<2;k++)for(size_t j=0;j<W[k];j++){ double s=0; for(size_t i=0;i<HP_N;i++) s+=E[k][i][j]*m->super_scores->data[i][0]; CHECK_EQ(m->block_loadings->m[k]->data[j][0]*tt, s, "block loading = E_b' t / t't for the stored super score"); } }
  { double ss=0, tin=0; for(size_t k=0;k<2;k++)for(size_t i=0;i<HP_N;i++)for(size_t j=0;j<W[k];j++) ss+=E[k][i][j]*E[k][i][j]/(double)W[k]; for(size_t i=0;i<HP_N;i++) tin+=Tin[i]*Tin[i];
    CHECK_EQ(m->total_expvar->data[0]*ss, 100.0*tin, "total explained variance = 100 t't / sum of squares of the block-scaled data"); }
  /* block scores: parallel to E_b (E_b' t_in), scaled by 1/sqrt(width): t_b sqrt(w) |r| = E_b r  with r = E_b' t_in */
  for(size_t k=0;k<2;k++){ if(W[k]>HP_BSW) continue;   /* wider blocks: attempted in thorough (measured undecided at 120 s) */
    double r[4], rr=0; for(size_t j=0;j<W[k];j++){ double s=0; for(size_t i=0;i<HP_N;i++) s+=E[k][i][j]*Tin[i]; r[j]=s; rr+=s*s; }
    for(size_t i=0;i<HP_N;i++){ double er=0; for(size_t j=0;j<W[k];j++) er+=E[k][i][j]*r[j]; double tb=m->block_scores->m[0]->data[i][k];
      CHECK_EQ(tb*tb*(double)W[k]*rr, er*er, "block score = E_b p_b / sqrt(width) with p_b the normalised E_b' t (squared form)"); } }
#else
  for(size_t k=0;k<2;k++){ AddTensorMatrix(m->block_loadings,W[k],HP_NPC); for(size_t j=0;j<W[k];j++)for(size_t c=0;c<HP_NPC;c++) m->block_loadings->m[k]->data[j][c]=in_double(-10,10);
    DVectorAppend(m->scaling_factor, in_double(0.5,4.0));
    dvector *av,*sc; NewDVector(&av,W[k]); NewDVector(&sc,W[k]);
    for(size_t j=0;j<W[k];j++){ av->data[j]=in_double(-1e3,1e3); double s=in_double(-1e3,1e3); ASSUME(s>=0.02||s<=-0.02); sc->data[j]=s; }
    DVectorListAppend(m->colaverage,av); DVectorListAppend(m->colscaling,sc); }
  ResizeMatrix(m->super_weights,2,HP_NPC); ResizeMatrix(m->super_scores,HP_N,HP_NPC);
  for(size_t k=0;k<2;k++)for(size_t c=0;c<HP_NPC;c++) m->super_weights->data[k][c]=in_double(-10,10);
  for(size_t k=0;k<2;k++)for(size_t i=0;i<HP_N;i++)for(size_t j=0;j<W[k];j++) E[k][i][j]=(E[k][i][j]-m->colaverage->d[k]->data[j])/m->colscaling->d[k]->data[j];
  matrix *ps; tensor *pb; initMatrix(&ps); initTensor(&pb);
  CPCAScorePredictor(x,m,HP_NPC,ps,pb);
  CHECK(ps->row==HP_N && ps->col==HP_NPC && pb->order==HP_NPC, "predicted super scores and block scores per component");
  for(size_t c=0;c<HP_NPC;c++){
    double tb[2][HP_N];
    for(size_t k=0;k<2;k++){ double pp=0; for(size_t j=0;j<W[k];j++) pp+=m->block_loadings->m[k]->data[j][c]*m->block_loadings->m[k]->data[j][c];
      for(size_t i=0;i<HP_N;i++){ double s=0; for(size_t j=0;j<W[k];j++) s+=E[k][i][j]*m->block_loadings->m[k]->data[j][c]; double b=pb->m[c]->data[i][k]; tb[k][i]=b;
        CHECK_EQ(b*b*pp*m->scaling_factor->data[k]*m->scaling_factor->data[k], s*s, "predicted block score = E_b p_b/|p_b| / scaling factor (squared form)");
        if(c==0) CHECK(b*s*m->scaling_factor->data[k]>=0, "predicted block score has the sign of E_b p_b"); } }
    for(size_t i=0;i<HP_N;i++){ double s=tb[0][i]*m->super_weights->data[0][c]+tb[1][i]*m->super_weights->data[1][c]; CHECK_EQ(ps->data[i][c], s, "predicted super score = block scores x super weights"); }
    for(size_t k=0;k<2;k++)for(size_t i=0;i<HP_N;i++)for(size_t j=0;j<W[k];j++) E[k][i][j]-=ps->data[i][c]*m->block_loadings->m[k]->data[j][c];
  }
#endif
  WITNESS();
}
