/* C06: sequential reproducibility with the CONCRETE generator arithmetic and an ARBITRARY clock: seeding twice with the
 * same seed gives the same HP_D draws whatever time() returns (E-BITS). */
#include <stdint.h>
#include <time.h>
#include "lsv.h"
#include "numeric.h"
uint32_t generate_seed(uint32_t seed);
static int clock_read;
time_t time(time_t *t){ clock_read=1; return (time_t)lsv_i(); }       /* arbitrary clock; the only source of non-determinism in the generator */
void harness(void){
  uint32_t s=(uint32_t)in_size(0,4294967295u);
#ifdef LSV_EXCL_C06_zero_state
  /* known finding: a generator state of 0 means "unseeded" and is replaced by the clock */
  { uint32_t st=generate_seed(s); for(int d=0;d<HP_D;d++){ ASSUME(st!=0); st=generate_seed(st); } }
#endif
  int a[HP_D], b[HP_D];
  srand_(s); for(int d=0;d<HP_D;d++) a[d]=randInt(0,1000);
  srand_(s); for(int d=0;d<HP_D;d++) b[d]=randInt(0,1000);
  int inr=1; for(int d=0;d<HP_D;d++){ if(a[d]<0||a[d]>=1000||b[d]<0||b[d]>=1000) inr=0; }
  CHECK(inr, "draws lie in the requested range");
  /* the generator is a pure function of its state except where it consults the clock: no clock read => same seed, same draws */
  CHECK(!clock_read, "a seeded stream never consults the clock (same seed => same draws, whatever time() returns)");
  WITNESS();
}
