/* C06: the set of seeds a bootstrap validation consumes does not depend on the thread count (for counts that divide the iteration
 * count): the call with HP_T threads hands its workers the same multiset of seeds as the call with one thread. E-BITS; the
 * pthread model records the seed each created worker is given and does not run the worker (the learners are not the subject; what a
 * seeded worker then draws is C06 rng_schedule / rng_repro). Group count and data sizes symbolic, HP_IT iterations. */
#include <stdint.h>
#include <pthread.h>
#include "lsv.h"
#include "matrix.h"
#include "modelvalidation.h"
#include "epls.h"
#include "lsv_structs_modelvalidation.h"
static unsigned seen[2][32]; static unsigned nseen[2]; static int run;
int pthread_create(pthread_t *t, const pthread_attr_t *a, void *(*f)(void *), void *arg){
  rgcv_th_arg *w=(rgcv_th_arg*)arg; if(nseen[run]<32) seen[run][nseen[run]]=w->srand_init; nseen[run]++; *t=(pthread_t)1; return 0; }
int pthread_join(pthread_t t, void **r){ return 0; }
void pthread_exit(void *r){ }
void harness(void){
  size_t n=in_size(2,4), g=in_size(1,3);
  matrix *x,*y; NewMatrix(&x,n,1); NewMatrix(&y,n,1);
  MODELINPUT in; in.mx=x; in.my=y; in.nlv=1; in.xautoscaling=0; in.yautoscaling=0;
  matrix *py,*pres; initMatrix(&py); initMatrix(&pres);
  run=0; BootstrapRandomGroupsCV(&in, g, HP_IT, _MLR_, py, pres, HP_T, NULL, 0);
  matrix *py1,*pres1; initMatrix(&py1); initMatrix(&pres1);
  run=1; BootstrapRandomGroupsCV(&in, g, HP_IT, _MLR_, py1, pres1, 1, NULL, 0);
  CHECK(nseen[1]==HP_IT, "the sequential run seeds one worker per iteration");
  CHECK(nseen[0]==nseen[1], "the run with N threads starts as many seeded workers as the sequential run");
  unsigned used=0; int ok=1;
  for(unsigned a=0;a<HP_IT;a++){ int f=0; for(unsigned b=0;b<HP_IT;b++) if(!f && !(used&(1u<<b)) && seen[1][b]==seen[0][a]){ used|=1u<<b; f=1; } if(!f) ok=0; }
  CHECK(ok, "a run with N threads consumes exactly the seeds of the sequential run (as a multiset)");
  WITNESS();
}
