/* C06: a validation call does not perturb the seeded random stream of the thread that makes it (workers seed and draw on their
 * own per-thread generator state). E-BITS with the REAL generator; the pthread model runs each created worker to completion
 * with a FRESH thread-local generator state and restores the creator's state afterwards - exactly what thread-local storage
 * gives a real worker thread. Work done inline in the calling thread is therefore visible as a change of the caller's state.
 * Learners are no-op stubs (their results are not the subject). HP_T threads, HP_IT iterations, 3 objects, 2 groups. */
#include <stdint.h>
#include <pthread.h>
#include "lsv.h"
#include "matrix.h"
#include "modelvalidation.h"
#include "mlr.h"
#include "numeric.h"
extern __thread uint32_t XOR128_SEED;
int pthread_create(pthread_t *t, const pthread_attr_t *a, void *(*f)(void *), void *arg){ uint32_t saved=XOR128_SEED; XOR128_SEED=0; f(arg); XOR128_SEED=saved; *t=(pthread_t)1; return 0; }
int pthread_join(pthread_t t, void **r){ return 0; }
void pthread_exit(void *r){ }
void MLR(matrix *mx, matrix *my, MLRMODEL *model, ssignal *s){ }
void MLRPredictY(matrix *mx, matrix *my, MLRMODEL *model, matrix *predicted_y, matrix *predicted_residuals, dvector *r2y, dvector *sdep){ ResizeMatrix(predicted_y, mx->row, 1); }
time_t time(time_t *t){ return 777; }
void harness(void){
  matrix *x,*y; NewMatrix(&x,3,1); NewMatrix(&y,3,1); for(size_t i=0;i<3;i++){ x->data[i][0]=(double)i; y->data[i][0]=in_double(-10,10); }
  MODELINPUT in; in.mx=x; in.my=y; in.nlv=1; in.xautoscaling=0; in.yautoscaling=0;
  matrix *py,*pres; initMatrix(&py); initMatrix(&pres);
  uint32_t s=(uint32_t)in_size(1,4294967295u);
  srand_(s); uint32_t before=XOR128_SEED; ASSUME(before!=0);
  BootstrapRandomGroupsCV(&in, 2, HP_IT, _MLR_, py, pres, HP_T, NULL, 0);
  CHECK(XOR128_SEED==before, "the calling thread's seeded generator state is untouched by the validation call, for every thread count");
  int d=randInt(0,1000); CHECK(d>=0 && d<1000, "the caller's next draw is in range");
  WITNESS();
}
