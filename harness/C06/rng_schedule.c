/* C06: the seeded random stream consumed by one worker is never perturbed by another worker. HP_W workers run
 * concurrently (CBMC explores every sequentially-consistent interleaving of their shared accesses); each seeds with its
 * own symbolic seed and draws HP_D numbers through the REAL srand_/randInt/rand_/randDouble. Obligation: every worker
 * observes exactly the numbers a sequential run with its seed produces. */
#include <stdint.h>
#include "lsv.h"
#include "numeric.h"
uint32_t nondet_u32(void);
#ifndef HP_D
#define HP_D 2
#endif
static uint32_t seed[3]; static double out[3][3]; static int done[3];
static void draws(int w){
  srand_(seed[w]);
  out[w][0] = (double)randInt(0, 10);
#if HP_D >= 2
  out[w][1] = rand_();
#endif
#if HP_D >= 3
  out[w][2] = randDouble(0.0, 4.0);
#endif
}
static void worker0(void){ draws(0); __CPROVER_fence("WWfence","RRfence","RWfence","WRfence"); done[0]=1; }
static void worker1(void){ draws(1); __CPROVER_fence("WWfence","RRfence","RWfence","WRfence"); done[1]=1; }
static void worker2(void){ draws(2); __CPROVER_fence("WWfence","RRfence","RWfence","WRfence"); done[2]=1; }
void harness(void){
  double exp_[3][3];
  for(int w=0;w<HP_W;w++) seed[w]=nondet_u32();
  for(int w=0;w<HP_W;w++){ draws(w); for(int d=0;d<HP_D;d++) exp_[w][d]=out[w][d]; }      /* sequential reference */
__CPROVER_ASYNC_1: worker0();
__CPROVER_ASYNC_2: worker1();
#if HP_W >= 3
__CPROVER_ASYNC_3: worker2();
#endif
  __CPROVER_assume(done[0] && done[1]);
#if HP_W >= 3
  __CPROVER_assume(done[2]);
#endif
  int same=1; for(int w=0;w<HP_W;w++)for(int d=0;d<HP_D;d++) if(!(out[w][d]==exp_[w][d])) same=0;
  CHECK(same, "every worker draws exactly the numbers of a sequential run with its seed, under every interleaving");
  WITNESS();
}
