/* C15: R2, MSE, RMSE, MAE, BIAS equal their formulas over the non-missing truths (concrete mask HP_MASK of MISSING-coded
 * truths, everything else symbolic). HP_PERFECT: predictions equal the truths. */
#include "lsv.h"
#include "vector.h"
#include "statistic.h"
#include "numeric.h"
#define MISS(i) (((HP_MASK) >> (i)) & 1)
void harness(void){
  dvector *yt,*yp; NewDVector(&yt,HP_N); NewDVector(&yp,HP_N); double Y[HP_N], P[HP_N];
  for(size_t i=0;i<HP_N;i++){ Y[i]=in_double(-1e6,1e6); P[i]=in_double(-1e6,1e6);
#if HP_PERFECT
    P[i]=Y[i];
#endif
    yt->data[i]= MISS(i) ? (double)MISSING : Y[i]; yp->data[i]=P[i]; }
  size_t n=0; double s=0; for(size_t i=HP_N;i>0;i--) if(!MISS(i-1)){ s+=Y[i-1]; n++; }
  double mean=s/n, ssres=0, sstot=0, sabs=0, syi=0, sxi=0;
  for(size_t i=HP_N;i>0;i--) if(!MISS(i-1)){ double e=P[i-1]-Y[i-1]; ssres+=e*e; sstot+=(Y[i-1]-mean)*(Y[i-1]-mean); sabs+= e<0?-e:e; syi+=P[i-1]*(Y[i-1]-mean); sxi+=Y[i-1]*(Y[i-1]-mean); }
  ASSUME(sstot>=1e-12);                      /* non-constant truth */
  double r2=R2(yt,yp), mse=MSE(yt,yp), rmse=RMSE(yt,yp), mae=MAE(yt,yp), bias=BIAS(yt,yp);
  CHECK_EQ(r2*sstot, sstot-ssres, "R2 = 1 - RSS/TSS over the non-missing truths");
  CHECK_EQ(mse*n, ssres, "MSE = RSS/n");
  CHECK(rmse>=0, "RMSE >= 0"); CHECK_EQ(rmse*rmse, mse, "RMSE^2 = MSE");
  CHECK_EQ(mae*n, sabs, "MAE = sum |e| / n");
  { double b=1-syi/sxi; CHECK_EQ(bias, b<0?-b:b, "BIAS = |1 - slope|"); }
  CHECK(r2<=1, "R2 <= 1");
#if HP_INEQ
  CHECK_LE(mae, rmse, "MAE <= RMSE");
#endif
#if HP_PERFECT
  CHECK_EQ(r2, 1.0, "perfect prediction: R2 = 1"); CHECK_EQ(mse, 0.0, "perfect prediction: MSE = 0"); CHECK_EQ(rmse, 0.0, "perfect prediction: RMSE = 0"); CHECK_EQ(mae, 0.0, "perfect prediction: MAE = 0");
#endif
  WITNESS();
}
