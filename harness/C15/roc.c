/* C15: ROC / PrecisionRecall for a CONCRETE binary truth vector (bits of HP_LABELS, 1 = positive) and a concrete score
 * order type (HP_P0 > HP_P1 > ... : object HP_Pk has the k-th largest score), scores symbolic and distinct (E-REAL).
 * AUC * n+ * n- = #{(pos,neg): s_pos > s_neg} (Mann-Whitney); since this count depends on pairwise comparisons only,
 * invariance under strictly increasing maps and permutations and AUC(-s) = 1 - AUC follow. */
#include "lsv.h"
#include "matrix.h"
#include "vector.h"
#include "statistic.h"
#define LAB(i) (((HP_LABELS) >> (i)) & 1)
static const size_t perm[] = { HP_PERM };
void harness(void){
  dvector *yt,*ys; NewDVector(&yt,HP_N); NewDVector(&ys,HP_N); double S[HP_N];
  for(size_t i=0;i<HP_N;i++){ S[i]=in_double(-1e6,1e6); ys->data[i]=S[i]; yt->data[i]= LAB(i) ? 1.0 : 0.0; }
  for(size_t k=0;k+1<HP_N;k++) ASSUME(S[perm[k]] > S[perm[k+1]]);
  size_t np=0, nn=0, wins=0;
  for(size_t i=0;i<HP_N;i++){ if(LAB(i)) np++; else nn++; }
  for(size_t i=0;i<HP_N;i++)for(size_t j=0;j<HP_N;j++) if(LAB(i) && !LAB(j) && S[i]>S[j]) wins++;
#if HP_WHICH==0
  matrix *roc; initMatrix(&roc); double auc=-1;
  ROC(yt,ys,roc,&auc);
  CHECK(roc->row==HP_N+1 && roc->col==2, "ROC curve has n+1 points");
  CHECK(roc->data[0][0]==0.0 && roc->data[0][1]==0.0 && roc->data[HP_N][0]==1.0 && roc->data[HP_N][1]==1.0, "ROC curve runs from (0,0) to (1,1)");
  { int mono=1; for(size_t k=0;k<HP_N;k++) if(!(roc->data[k+1][0]>=roc->data[k][0] && roc->data[k+1][1]>=roc->data[k][1])) mono=0; CHECK(mono, "ROC curve rises monotonically"); }
  CHECK_EQ(auc*(double)(np*nn), (double)wins, "AUC = Mann-Whitney probability that a positive outscores a negative");
#else
  matrix *pr; initMatrix(&pr); double ap=-1;
  PrecisionRecall(yt,ys,pr,&ap);
  CHECK(pr->row==HP_N+1 && pr->col==2, "PR curve has n+1 points");
  { int mono=1; for(size_t k=0;k<HP_N;k++) if(!(pr->data[k+1][0]>=pr->data[k][0])) mono=0; CHECK(mono && pr->data[HP_N][0]==1.0, "recall non-decreasing, ending at 1"); }
  CHECK(ap>=0 && ap<=1, "PR area in [0,1]");
#endif
  WITNESS();
}
