/* C15/C19: curve_area(xy, 0) = sum of trapezoids; additive over a split at any interior point (E-REAL) */
#include "lsv.h"
#include "matrix.h"
#include "numeric.h"
void harness(void){
  matrix *xy; NewMatrix(&xy,HP_N,2);
  for(size_t i=0;i<HP_N;i++){ xy->data[i][0]=in_double(-1e4,1e4); xy->data[i][1]=in_double(-1e4,1e4); }
  double s=0; for(size_t i=HP_N-1;i>0;i--) s+=(xy->data[i][0]-xy->data[i-1][0])*(xy->data[i][1]+xy->data[i-1][1])/2;
  double a=curve_area(xy,0);
  CHECK_EQ(a, s, "area = sum of trapezoids (exact integral of the polyline)");
  for(size_t k=1;k+1<HP_N;k++){
    matrix *l,*r; NewMatrix(&l,k+1,2); NewMatrix(&r,HP_N-k,2);
    for(size_t i=0;i<=k;i++){ l->data[i][0]=xy->data[i][0]; l->data[i][1]=xy->data[i][1]; }
    for(size_t i=k;i<HP_N;i++){ r->data[i-k][0]=xy->data[i][0]; r->data[i-k][1]=xy->data[i][1]; }
    CHECK_EQ(curve_area(l,0)+curve_area(r,0), a, "area additive over sub-ranges");
  }
  WITNESS();
}
