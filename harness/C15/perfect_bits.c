/* C15 (E-BITS, IEEE-exact): for perfect prediction R2 is exactly 1 and the errors exactly 0, for every finite truth vector
 * with |y| <= 1e9 whose values differ by at least 1e-6 — the floating-point side of "R2 = 1 and errors = 0 for perfect
 * prediction" that exact-arithmetic reasoning cannot see (cancellation in the variance). */
#include "lsv.h"
#include "vector.h"
#include "statistic.h"
void harness(void){
  dvector *yt,*yp; NewDVector(&yt,HP_N); NewDVector(&yp,HP_N);
  for(size_t i=0;i<HP_N;i++){ double v=in_double(-1e9,1e9); ASSUME(v<99999998.0 || v>100000000.0); /* not the missing-value code */ yt->data[i]=v; yp->data[i]=v; }
  { double d=yt->data[0]-yt->data[HP_N-1]; ASSUME(d>=1e-6 || d<=-1e-6); }
  double r2=R2(yt,yp);
  CHECK(r2==1.0, "perfect prediction: R2 is exactly 1 in IEEE arithmetic");
  CHECK(MSE(yt,yp)==0.0 && MAE(yt,yp)==0.0, "perfect prediction: MSE = MAE = 0 in IEEE arithmetic");
  WITNESS();
}
