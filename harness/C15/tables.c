/* C15: the PLS / MLR statistic tables are R2, RMSE and BIAS applied per response and latent variable: entry [lv][j] is the
 * figure of merit of (true column j, predicted column ny*lv + j) (E-REAL; the figures of merit themselves are the regression
 * obligations). HP_N objects, HP_NY responses, HP_NLV latent variables (HP_NLV = 1 and HP_MLR: the MLR table). */
#include "lsv.h"
#include "matrix.h"
#include "pls.h"
#include "mlr.h"
#include "statistic.h"
#include "numeric.h"
void harness(void){
  matrix *yt,*yp; NewMatrix(&yt,HP_N,HP_NY); NewMatrix(&yp,HP_N,HP_NY*HP_NLV);
  for(size_t i=0;i<HP_N;i++){ for(size_t j=0;j<HP_NY;j++){ yt->data[i][j]=in_double(-1e3,1e3);
#if defined(HP_MASK) && HP_MASK
      if((HP_MASK>>(i*HP_NY+j))&1) yt->data[i][j]=MISSING;      /* concrete mask of MISSING-coded truths (bit i*ny+j): ignored per response column, not per object */
#endif
    } for(size_t c=0;c<HP_NY*HP_NLV;c++) yp->data[i][c]=in_double(-1e3,1e3); }
#if HP_MLR
  dvector *cc,*rm,*bi; initDVector(&cc); initDVector(&rm); initDVector(&bi);
  MLRRegressionStatistics(yt,yp,cc,rm,bi);
  CHECK(cc->size==HP_NY && rm->size==HP_NY && bi->size==HP_NY, "one figure of merit per response");
#else
  matrix *cc,*rm,*bi; initMatrix(&cc); initMatrix(&rm); initMatrix(&bi);
  PLSRegressionStatistics(yt,yp,cc,rm,bi);
  CHECK(cc->row==HP_NLV && cc->col==HP_NY && rm->row==HP_NLV && rm->col==HP_NY && bi->row==HP_NLV && bi->col==HP_NY, "tables are latent variables x responses");
#endif
  for(size_t lv=0;lv<HP_NLV;lv++)for(size_t j=0;j<HP_NY;j++){
    dvector *a,*b; NewDVector(&a,HP_N); NewDVector(&b,HP_N); for(size_t i=0;i<HP_N;i++){ a->data[i]=yt->data[i][j]; b->data[i]=yp->data[i][HP_NY*lv+j]; }
    { double s=0, cnt=0; for(size_t i=0;i<HP_N;i++) if(a->data[i]!=MISSING){ s+=a->data[i]; cnt+=1; } double q=0; for(size_t i=0;i<HP_N;i++) if(a->data[i]!=MISSING) q+=(a->data[i]-s/cnt)*(a->data[i]-s/cnt); ASSUME(q>=1e-12); }
#if HP_MLR
    CHECK_EQ(cc->data[j], R2(a,b), "table entry = R2 of (true column j, predicted column j)"); CHECK_EQ(rm->data[j], RMSE(a,b), "table entry = RMSE"); CHECK_EQ(bi->data[j], BIAS(a,b), "table entry = BIAS");
#else
    CHECK_EQ(cc->data[lv][j], R2(a,b), "table entry [lv][j] = R2 of (true column j, predicted column ny*lv+j)"); CHECK_EQ(rm->data[lv][j], RMSE(a,b), "table entry = RMSE of the same columns"); CHECK_EQ(bi->data[lv][j], BIAS(a,b), "table entry = BIAS of the same columns");
#endif
  }
  WITNESS();
}
