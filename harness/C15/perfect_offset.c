/* C15 (E-BITS, IEEE-exact): perfect prediction gives R2 exactly 1 for truths riding on a large common offset:
 * y_i = HP_OFFSET + k_i/4 with k_i symbolic in 0..63, not all equal. Small symbolic part => the SAT instance stays
 * small even when the code under test multiplies large numbers (where a cancelling variance formula loses all digits). */
#include "lsv.h"
#include "vector.h"
#include "statistic.h"
void harness(void){
  dvector *yt,*yp; NewDVector(&yt,HP_N); NewDVector(&yp,HP_N); size_t k0=0; int differ=0;
  for(size_t i=0;i<HP_N;i++){ size_t k=in_size(0,63); if(i==0) k0=k; else if(k!=k0) differ=1; double v=(double)(HP_OFFSET)+(double)k/4.0; yt->data[i]=v; yp->data[i]=v; }
  ASSUME(differ);
  double r2=R2(yt,yp);
  CHECK(r2==1.0, "perfect prediction on offset data: R2 is exactly 1 in IEEE arithmetic");
  WITNESS();
}
