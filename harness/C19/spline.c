/* C19: natural cubic spline through HP_K knots with strictly increasing abscissae (gaps in [1e-7,1e7]) and symbolic ordinates
 * (E-REAL). HP_WHICH 0: coefficient contracts (interpolation at both ends of every piece, C1 and C2 at interior knots, zero
 * second derivative at both ends, straight lines reproduced); 1: evaluation returns, for every knot and for a symbolic x inside
 * a symbolic piece, that piece's polynomial (piece lookup independent of the scale of x). */
#include "lsv.h"
#include "matrix.h"
#include "interpolate.h"
#define NP (HP_K-1)
#ifndef HP_PREFILL
#define HP_PREFILL 0
#endif
#ifndef HP_PJ
#define HP_PJ 0
#endif
void harness(void){
  matrix *xy,*S; NewMatrix(&xy,HP_K,2);
#if HP_PREFILL
  NewMatrix(&S,HP_K-1,5); for(size_t i=0;i+1<HP_K;i++)for(size_t j=0;j<5;j++) S->data[i][j]=in_double(-1e3,1e3);
#else
  initMatrix(&S);
#endif
  double X[HP_K], Y[HP_K];
#if HP_WHICH==2
  for(size_t i=0;i<HP_K;i++) X[i]=(double)(i*i)+0.5*(double)i-1.25;      /* concrete irregular knots: the piece search is decided by constants */
#else
  X[0]=in_double(-1e7,1e7); for(size_t i=1;i<HP_K;i++){ double g=in_double(1e-7,1e7); X[i]=X[i-1]+g; }
#endif
  for(size_t i=0;i<HP_K;i++){ Y[i]=in_double(-1e3,1e3); xy->data[i][0]=X[i]; xy->data[i][1]=Y[i]; }
#if HP_LINE
  { double s=in_double(-10,10), c=in_double(-10,10); for(size_t i=0;i<HP_K;i++){ Y[i]=s*X[i]+c; xy->data[i][1]=Y[i]; } }
#endif
  cubic_spline_interpolation(xy,S);
  CHECK(S->row==NP && S->col==5, "one polynomial piece per interval");
#define A(j) S->data[j][1]
#define B(j) S->data[j][2]
#define C(j) S->data[j][3]
#define D(j) S->data[j][4]
#if HP_WHICH==0
  for(size_t j=0;j<NP;j++){ double h=X[j+1]-X[j];
    CHECK_EQ(S->data[j][0], X[j], "piece j starts at knot j");
    CHECK_EQ(A(j), Y[j], "spline passes through the left knot of every piece");
    CHECK_EQ(A(j)+B(j)*h+C(j)*h*h+D(j)*h*h*h, Y[j+1], "spline passes through the right knot of every piece");
    if(j+1<NP){ CHECK_EQ(B(j)+2*C(j)*h+3*D(j)*h*h, B(j+1), "first derivative continuous at interior knots");
                CHECK_EQ(2*C(j)+6*D(j)*h, 2*C(j+1), "second derivative continuous at interior knots"); } }
  CHECK_EQ(C(0), 0.0, "zero second derivative at the first knot");
  { double h=X[NP]-X[NP-1]; CHECK_EQ(2*C(NP-1)+6*D(NP-1)*h, 0.0, "zero second derivative at the last knot"); }
#if HP_LINE
  for(size_t j=0;j<NP;j++){ CHECK_EQ(C(j), 0.0, "straight line: no curvature"); CHECK_EQ(D(j), 0.0, "straight line: no cubic term"); CHECK_EQ(B(j)*(X[j+1]-X[j]), Y[j+1]-Y[j], "straight line: slope reproduced"); }
#endif
#elif HP_WHICH==2
  /* evaluation is a pure function of x: ONE call with the query abscissae (every knot and every midpoint, concrete values) in the
   * order HP_QORDER returns, for each, the value of the piece that contains it - whatever the order of the queries */
  { static const int qo[] = { HP_QORDER }; size_t nq=sizeof(qo)/sizeof(qo[0]);
    dvector *xq,*yp; NewDVector(&xq,nq); initDVector(&yp);
    for(size_t q=0;q<nq;q++){ int c=qo[q]; xq->data[q] = (c%2==0) ? X[c/2] : 0.5*(X[c/2]+X[c/2+1]); }       /* code 2i = knot i, 2i+1 = midpoint of piece i */
    cubic_spline_predict(xq,S,yp);
    CHECK(yp->size==nq, "one prediction per abscissa");
    for(size_t q=0;q<nq;q++){ int c=qo[q]; size_t pj = (c%2==0) ? ((size_t)(c/2)<NP ? (size_t)(c/2) : NP-1) : (size_t)(c/2);
      if(c%2==0 && c/2>0 && (size_t)(c/2)<NP) pj=(size_t)(c/2)-1;          /* an interior knot is found in the piece it closes (<= on the right end) */
      double t=xq->data[q]-X[pj]; CHECK_EQ(yp->data[q], A(pj)+B(pj)*t+C(pj)*t*t+D(pj)*t*t*t, "each query is evaluated with the polynomial of the piece that contains it, in any query order"); } }
#else
  dvector *xq,*yp; NewDVector(&xq,HP_K+1); initDVector(&yp);
  for(size_t i=0;i<HP_K;i++) xq->data[i]=X[i];
  size_t pj=HP_PJ; double fr=in_double(0.0,1.0); double xs=X[pj]+fr*(X[pj+1]-X[pj]);        /* any point of piece HP_PJ (concrete piece, symbolic position) */
  xq->data[HP_K]=xs;
  cubic_spline_predict(xq,S,yp);
  CHECK(yp->size==HP_K+1, "one prediction per abscissa");
  for(size_t i=0;i<HP_K;i++) CHECK_EQ(yp->data[i], Y[i], "evaluation at a knot returns the ordinate");
  { double t=xs-X[pj]; double e=A(pj)+B(pj)*t+C(pj)*t*t+D(pj)*t*t*t; CHECK_EQ(yp->data[HP_K], e, "evaluation inside piece j returns piece j's polynomial"); }
#endif
  WITNESS();
}
