/* C19/C18: NelderMeadSimplex with an ARBITRARY deterministic objective (an uninterpreted function of the point: the same
 * point always gets the same value, nothing else is assumed except that values are not NaN), HP_D dimensions, symbolic start
 * point and steps, HP_IT iterations allowed, symbolic tolerance (E-BITS, IEEE):
 *  - the value returned is the objective's value at the point returned,
 *  - it is never worse than the best vertex of the initial simplex,
 *  - the loop stops after at most HP_IT iterations whatever the objective returns (the unwinding assertion of the
 *    optimisation loop is part of the obligation: unwind = HP_IT + 1). */
#include "lsv.h"
#include "vector.h"
#include "optimization.h"
#if HP_D==1
double __CPROVER_uninterpreted_lsvobj1(double);
#define OBJ(v) __CPROVER_uninterpreted_lsvobj1((v)->data[0])
#else
double __CPROVER_uninterpreted_lsvobj2(double, double);
#define OBJ(v) __CPROVER_uninterpreted_lsvobj2((v)->data[0], (v)->data[1])
#endif
static unsigned calls;
static double objective(dvector *v){ double r=OBJ(v); ASSUME(r==r); calls++; return r; }
void harness(void){
  dvector *x0,*st,*best; NewDVector(&x0,HP_D); NewDVector(&st,HP_D); initDVector(&best);
  for(size_t j=0;j<HP_D;j++){ x0->data[j]=in_double(-1e3,1e3); double s=in_double(-10,10); ASSUME(s>=1e-3||s<=-1e-3); st->data[j]=s; }
  double tol=in_double(0.0,1.0);
  double f_init[HP_D+1];
  { dvector *t; NewDVector(&t,HP_D); for(size_t i=0;i<HP_D+1;i++){ for(size_t j=0;j<HP_D;j++) t->data[j]=(i>=1 && i-1==j) ? x0->data[j]+st->data[j] : x0->data[j]; f_init[i]=OBJ(t); } }
  double res=NelderMeadSimplex((double (*)())objective, x0, HP_STEP?st:NULL, tol, HP_IT, best);
  CHECK(best->size==HP_D, "returned point has the dimension of the problem");
#if HP_STEP
  for(size_t i=0;i<HP_D+1;i++) CHECK(!(f_init[i]==f_init[i]) || res<=f_init[i], "returned value never worse than the best vertex of the initial simplex");
#endif
  { double fb=OBJ(best); CHECK(!(fb==fb) || res==fb, "returned value is the objective's value at the returned point"); }
  WITNESS();
}
