/* C01: PCA as an exact orthogonal decomposition — obligations on ONE PASS of the real NIPALS loop per component, started from
 * an ARBITRARY loop-head state: the guarded hook LSCI_VERIF_LOOP_HEAD hands the loop-carried vectors (t and the accumulating
 * loading p) to the harness, which overwrites them with symbolic values; the convergence verdict is forced (stub), so exactly
 * one pass runs per component. X is HP_N x HP_M symbolic, scaling HP_SC (-1: E = X). E-REAL.
 * Induction: these facts hold for the pass that exits, whatever state the earlier passes left, hence for every run. */
#include "lsv.h"
#include "matrix.h"
#include "pca.h"
#include "memwrapper.h"
#ifndef HP_NPC
#define HP_NPC 1
#endif
#ifndef HP_T
#define HP_T 1
#endif
double calcConvergence(dvector *a, dvector *b){ return 0.0; }        /* forced exit: exactly one pass per component */
static unsigned comp; static double Tin[2][HP_N], Pin[2][HP_M];
#if HP_MODE==1
static double Q[HP_M];                                                   /* ghost direction already removed from E */
#endif
static int replaying;
static void loop_head(int site, void *a, void *b, void *c){
  dvector *t=a, *p=b;
  if(replaying){ if(comp<2){ for(size_t i=0;i<HP_N;i++) t->data[i]=Tin[comp][i]; for(size_t j=0;j<HP_M;j++) p->data[j]=Pin[comp][j]; } comp++; return; }
  if(comp<2){
    for(size_t i=0;i<HP_N;i++){ Tin[comp][i]=in_double(-1e3,1e3); t->data[i]=Tin[comp][i]; }
    for(size_t j=0;j<HP_M;j++){ Pin[comp][j]=in_double(-1e3,1e3); p->data[j]=Pin[comp][j]; }
  }
  comp++;
}
void harness(void){
  lsci_verif_loop_head_cb = loop_head; lsci_verif_nproc = HP_T;
  matrix *x; NewMatrix(&x,HP_N,HP_M); double E[HP_N][HP_M];
  for(size_t i=0;i<HP_N;i++)for(size_t j=0;j<HP_M;j++){ E[i][j]=in_double(-1e3,1e3); x->data[i][j]=E[i][j]; }
#if HP_SC==0 && HP_MODE!=3
  /* mean centring: E = X - column mean (C10 decides the preprocessing itself) */
  for(size_t j=0;j<HP_M;j++){ double s=0; for(size_t i=0;i<HP_N;i++) s+=x->data[i][j]; ASSUME(s<=-1e-6||s>=1e-6||s==0); for(size_t i=0;i<HP_N;i++) E[i][j]=x->data[i][j]-s/HP_N; }
#endif
#if HP_MODE==1
  /* invariant carried between components: q is a unit vector with E q = 0 (an earlier loading); the carried p is orthogonal to q */
  { double qq=0; for(size_t j=0;j<HP_M;j++){ Q[j]=in_double(-1,1); qq+=Q[j]*Q[j]; } ASSUME(qq==1.0);
    for(size_t i=0;i<HP_N;i++){ double s=0; for(size_t j=0;j<HP_M;j++) s+=E[i][j]*Q[j]; ASSUME(s==0.0); } }
#endif
  PCAMODEL *m; NewPCAModel(&m);
  PCA(x, HP_SC, HP_NPC, m, NULL);
#if HP_MODE==3
  /* scaling composes: PCA(x, option) is PCA(MatrixPreprocess(x, option), -1) from the same loop-head states, field by field;
   * what each option does to x is C10, what PCA does to a preprocessed matrix are the scaling -1 obligations */
  { matrix *xc; NewMatrix(&xc,HP_N,HP_M); dvector *av,*sc; initDVector(&av); initDVector(&sc);
    MatrixPreprocess(x, HP_SC, av, sc, xc);
    PCAMODEL *m2; NewPCAModel(&m2); comp=0; replaying=1;
    PCA(xc, -1, HP_NPC, m2, NULL);
    CHECK(m->colaverage->size==av->size && m->colscaling->size==sc->size, "model stores the preprocessing vectors");
    for(size_t j=0;j<av->size;j++) CHECK_EQ(m->colaverage->data[j], av->data[j], "stored column averages are those of MatrixPreprocess");
    for(size_t j=0;j<sc->size;j++) CHECK_EQ(m->colscaling->data[j], sc->data[j], "stored column scalings are those of MatrixPreprocess");
    int same=1;
    for(size_t k=0;k<HP_NPC;k++){ if(!(m->varexp->data[k]==m2->varexp->data[k])) same=0;
      for(size_t i=0;i<HP_N;i++){ if(!(m->scores->data[i][k]==m2->scores->data[i][k])) same=0; if(!(m->dmodx->data[i][k]==m2->dmodx->data[i][k])) same=0; }
      for(size_t j=0;j<HP_M;j++) if(!(m->loadings->data[j][k]==m2->loadings->data[j][k])) same=0; }
    CHECK(same, "PCA(x, option) = PCA(preprocessed x, no scaling): scores, loadings, dmodx, explained variance");
    WITNESS(); return; }
#endif
  CHECK(comp==HP_NPC, "one loop-head visit per component (forced single pass)");
  CHECK(m->scores->row==HP_N && m->scores->col==HP_NPC && m->loadings->row==HP_M && m->loadings->col==HP_NPC && m->varexp->size==HP_NPC, "model shapes");
  double ss=0; for(size_t i=0;i<HP_N;i++)for(size_t j=0;j<HP_M;j++) ss+=E[i][j]*E[i][j];
  for(size_t k=0;k<HP_NPC;k++){
    double P[HP_M], T[HP_N], pp=0;
    for(size_t j=0;j<HP_M;j++){ P[j]=m->loadings->data[j][k]; pp+=P[j]*P[j]; }
    for(size_t i=0;i<HP_N;i++) T[i]=m->scores->data[i][k];
#if HP_MODE==0 || HP_MODE==2
    CHECK_EQ(pp, 1.0, "loading has unit norm");
    for(size_t i=0;i<HP_N;i++){ double s=0; for(size_t j=HP_M;j>0;j--) s+=E[i][j-1]*P[j-1]; CHECK_EQ(T[i], s, "score = projection of the (deflated) data onto the loading"); }
    /* the loading is the normalised (carried p + E't)/t't: parallel to it (all 2x2 cross products vanish) and not opposite */
    { double tt=0; for(size_t i=0;i<HP_N;i++) tt+=Tin[k][i]*Tin[k][i]; double R[HP_M];
      for(size_t j=0;j<HP_M;j++){ double s=Pin[k][j]; for(size_t i=0;i<HP_N;i++) s+=E[i][j]*Tin[k][i]; R[j]=s; }
      for(size_t a=0;a<HP_M;a++)for(size_t b=a+1;b<HP_M;b++) CHECK_EQ(P[a]*R[b], P[b]*R[a], "loading is parallel to carried p + E't");
      double d=0; for(size_t j=0;j<HP_M;j++) d+=P[j]*R[j]; CHECK(d*tt>0, "P.R has the sign of t't, in particular P.R != 0");
      CHECK_EQ(m->varexp->data[k]*ss, 100.0*tt, "explained variance = 100 * t't / trace(E'E) with t the iterate entering the exiting pass");
      CHECK(m->varexp->data[k]>=0 || ss<=0, "explained variance non-negative"); }
    /* residual and dmodx */
    for(size_t i=0;i<HP_N;i++){ double r2=0, rp=0; for(size_t j=0;j<HP_M;j++){ double r=E[i][j]-T[i]*P[j]; r2+=r*r; rp+=r*P[j]; }
      if(k==0) CHECK_EQ(rp, 0.0, "residual is orthogonal to the extracted loading");   /* later components: lemma 4 on the code facts |p|=1, t=Ep */
      CHECK(m->dmodx->data[i][k]>=0, "dmodx >= 0"); CHECK_EQ(m->dmodx->data[i][k]*m->dmodx->data[i][k], r2, "dmodx^2 = row sum of squares of the residual"); }
    /* Pythagoras: |E - t p'|^2 = |E|^2 - t't  (so explained variances never sum above 100 %); later components: lemma 3 */
    if(k==0){ double r2=0, tt=0; for(size_t i=0;i<HP_N;i++){ tt+=T[i]*T[i]; for(size_t j=0;j<HP_M;j++){ double r=E[i][j]-T[i]*P[j]; r2+=r*r; } }
      double e2=0; for(size_t i=0;i<HP_N;i++)for(size_t j=0;j<HP_M;j++) e2+=E[i][j]*E[i][j];
      CHECK_EQ(r2, e2-tt, "|residual|^2 = |E|^2 - t't"); }
    /* deflate the harness copy for the next component */
    for(size_t i=0;i<HP_N;i++)for(size_t j=0;j<HP_M;j++) E[i][j]-=T[i]*P[j];
#elif HP_MODE==1
    /* inductive step for orthogonality between components, as a chain: code facts here, the purely algebraic closing
     * steps (parallel to R and R.q = 0 and P.R != 0  =>  P.q = 0;  E q = 0 and P.q = 0  =>  (E - T P') q = 0) are the
     * opaque-variable obligations of C01/lemmas.c */
    { double pinq=0; for(size_t j=0;j<HP_M;j++) pinq+=Pin[k][j]*Q[j]; ASSUME(pinq==0.0); }
    { double tt=0; for(size_t i=0;i<HP_N;i++) tt+=Tin[k][i]*Tin[k][i]; double R[HP_M];
      for(size_t j=0;j<HP_M;j++){ double s=Pin[k][j]; for(size_t i=0;i<HP_N;i++) s+=E[i][j]*Tin[k][i]; R[j]=s; }
      /* "loading parallel to R" and "P.R t't > 0" are code facts of the unconditional pass obligations (mode 0) */
      double rq=0; for(size_t j=0;j<HP_M;j++) rq+=R[j]*Q[j]; CHECK_EQ(rq, 0.0, "code fact: R.q = 0 when E q = 0 and the carried p is orthogonal to q"); }
#endif
  }
  WITNESS();
}
