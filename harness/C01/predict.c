/* C01: PCAScorePredictor and PCAIndVarPredictor on a model with SYMBOLIC loadings/scores (HP_M variables, HP_NPC components,
 * HP_N objects), HP_T worker threads seen by the multithreaded kernels. E-REAL.
 * Score predictor: scores are the successive projections t_k = E_k p_k / (p_k.p_k), E_{k+1} = E_k - t_k p_k' of the matrix
 * preprocessed with the stored vectors - the same step the training pass performs, so projecting the training matrix through
 * the model reproduces the training scores. Back-transform: X = (T P') * scale + mean for every presence combination. */
#include "lsv.h"
#include "matrix.h"
#include "pca.h"
#include "memwrapper.h"
#ifndef HP_PREFILL
#define HP_PREFILL 0
#endif
void harness(void){
  lsci_verif_nproc = HP_T;
#if HP_WHICH==0
  PCAMODEL *m; NewPCAModel(&m); ResizeMatrix(m->loadings,HP_M,HP_NPC);
  for(size_t j=0;j<HP_M;j++)for(size_t k=0;k<HP_NPC;k++) m->loadings->data[j][k]=in_double(-10,10);
  double mean[HP_M], scal[HP_M];
  for(size_t j=0;j<HP_M;j++){ mean[j]=0; scal[j]=1; }
#if HP_PRE>=1
  for(size_t j=0;j<HP_M;j++){ mean[j]=in_double(-1e3,1e3); DVectorAppend(m->colaverage, mean[j]); }
#endif
#if HP_PRE>=2
  for(size_t j=0;j<HP_M;j++){ scal[j]=in_double(-1e3,1e3); ASSUME(scal[j]>=0.02 || scal[j]<=-0.02);   /* stored scalings of either sign (level scaling of a negative-mean column) */ DVectorAppend(m->colscaling, scal[j]); }
#endif
  matrix *x; NewMatrix(&x,HP_N,HP_M); double E[HP_N][HP_M];
  for(size_t i=0;i<HP_N;i++)for(size_t j=0;j<HP_M;j++){ x->data[i][j]=in_double(-1e3,1e3); E[i][j]=(x->data[i][j]-mean[j])/scal[j]; }
  matrix *ps;
#if HP_PREFILL
  NewMatrix(&ps,HP_N,HP_NPC); for(size_t i=0;i<HP_N;i++)for(size_t k=0;k<HP_NPC;k++) ps->data[i][k]=in_double(-1e3,1e3);
#else
  initMatrix(&ps);
#endif
  PCAScorePredictor(x, m, HP_NPC+HP_EXTRA, ps);
  CHECK(ps->row==HP_N && ps->col==HP_NPC, "one score column per available component (request clamped)");
  for(size_t k=0;k<HP_NPC;k++){
    double pp=0; for(size_t j=0;j<HP_M;j++) pp+=m->loadings->data[j][k]*m->loadings->data[j][k];
    for(size_t i=0;i<HP_N;i++){ double s=0; for(size_t j=HP_M;j>0;j--) s+=E[i][j-1]*m->loadings->data[j-1][k]; CHECK_EQ(ps->data[i][k]*pp, s, "predicted score = projection of the deflated preprocessed data onto loading k"); }
    for(size_t i=0;i<HP_N;i++)for(size_t j=0;j<HP_M;j++) E[i][j]-=ps->data[i][k]*m->loadings->data[j][k];
  }
#else
  matrix *t,*p,*x; NewMatrix(&t,HP_N,HP_NPC); NewMatrix(&p,HP_M,HP_NPC);
#if HP_PREFILL
  NewMatrix(&x,HP_N,HP_M); for(size_t i=0;i<HP_N;i++)for(size_t j=0;j<HP_M;j++) x->data[i][j]=in_double(-1e3,1e3);
#else
  initMatrix(&x);
#endif
  for(size_t i=0;i<HP_N;i++)for(size_t k=0;k<HP_NPC;k++) t->data[i][k]=in_double(-1e3,1e3);
  for(size_t j=0;j<HP_M;j++)for(size_t k=0;k<HP_NPC;k++) p->data[j][k]=in_double(-10,10);
  dvector *av,*sc; initDVector(&av); initDVector(&sc); double mean[HP_M], scal[HP_M];
  for(size_t j=0;j<HP_M;j++){ mean[j]=0; scal[j]=1; }
#if HP_PRE>=1
  for(size_t j=0;j<HP_M;j++){ mean[j]=in_double(-1e3,1e3); DVectorAppend(av, mean[j]); }
#endif
#if HP_PRE>=2
  for(size_t j=0;j<HP_M;j++){ scal[j]=in_double(-1e3,1e3); ASSUME(scal[j]>=0.02 || scal[j]<=-0.02);   /* stored scalings of either sign (level scaling of a negative-mean column) */ DVectorAppend(sc, scal[j]); }
#endif
  PCAIndVarPredictor(t,p,av,sc,HP_NPC+HP_EXTRA,x);
  CHECK(x->row==HP_N && x->col==HP_M, "reconstruction has the shape of the data");
  for(size_t i=0;i<HP_N;i++)for(size_t j=0;j<HP_M;j++){ double s=0; for(size_t k=HP_NPC;k>0;k--) s+=t->data[i][k-1]*p->data[j][k-1]; CHECK_EQ(x->data[i][j], s*scal[j]+mean[j], "x = (T P') * scale + mean"); }
#endif
  WITNESS();
}
