/* C01: GetResidualMatrix returns preprocessed data minus the first pc components of ANY model (E-REAL): HP_N x HP_M data, a model
 * with HP_NPC components whose averages, scalings (HP_SC 1: present, either sign, |s| >= 1e-2; 0: absent), scores and loadings
 * are all symbolic; pc = HP_PC <= HP_NPC (asking for more components than the model holds is outside the claim).
 * HP_PREFILL 1: the result matrix handed in already has the final shape and arbitrary content. */
#include "lsv.h"
#include "matrix.h"
#include "pca.h"
void harness(void){
  matrix *x,*r; NewMatrix(&x,HP_N,HP_M); double X[HP_N][HP_M];
  for(size_t i=0;i<HP_N;i++)for(size_t j=0;j<HP_M;j++){ X[i][j]=in_double(-1e3,1e3); x->data[i][j]=X[i][j]; }
  PCAMODEL *m; NewPCAModel(&m); double av[HP_M], sc[HP_M], T[HP_N][HP_NPC], P[HP_M][HP_NPC];
  for(size_t j=0;j<HP_M;j++){ av[j]=in_double(-1e3,1e3); DVectorAppend(m->colaverage, av[j]); }
  for(size_t j=0;j<HP_M;j++){ sc[j]=in_double(-1e3,1e3); ASSUME(sc[j]>=1e-2 || sc[j]<=-1e-2);
#if HP_SC
    DVectorAppend(m->colscaling, sc[j]);
#endif
  }
  ResizeMatrix(m->scores,HP_N,HP_NPC); ResizeMatrix(m->loadings,HP_M,HP_NPC);
  for(size_t k=0;k<HP_NPC;k++){ for(size_t i=0;i<HP_N;i++){ T[i][k]=in_double(-1e3,1e3); m->scores->data[i][k]=T[i][k]; } for(size_t j=0;j<HP_M;j++){ P[j][k]=in_double(-1,1); m->loadings->data[j][k]=P[j][k]; } }
#if defined(HP_PREFILL) && HP_PREFILL
  NewMatrix(&r,HP_N,HP_M); for(size_t i=0;i<HP_N;i++)for(size_t j=0;j<HP_M;j++) r->data[i][j]=in_double(-1e3,1e3);
#else
  initMatrix(&r);
#endif
  GetResidualMatrix(x,m,HP_PC,r);
  CHECK(r->row==HP_N && r->col==HP_M, "the residual matrix has the shape of the data");
  for(size_t i=0;i<HP_N;i++)for(size_t j=0;j<HP_M;j++){
    double e=X[i][j]-av[j];
#if HP_SC
    double lhs=r->data[i][j]*sc[j]; for(size_t k=0;k<HP_PC;k++) lhs+=T[i][k]*P[j][k]*sc[j];
    CHECK_EQ(lhs, e, "residual = preprocessed data - scores x loadings' over the requested components");
#else
    double lhs=r->data[i][j]; for(size_t k=0;k<HP_PC;k++) lhs+=T[i][k]*P[j][k];
    CHECK_EQ(lhs, e, "residual = preprocessed data - scores x loadings' over the requested components");
#endif
    CHECK_EQ(x->data[i][j], X[i][j], "the data matrix is not modified"); }
  WITNESS();
}
