/* C01/C03/C09: the purely algebraic closing steps of the assert-then-assume chains, over OPAQUE symbolic vectors (no library
 * code involved: these are the small lemmas that connect the code facts proved on the real NIPALS pass).
 * HP_LEMMA 1: P parallel to R (all 2x2 minors 0), R.q = 0, P.R != 0  =>  P.q = 0
 *          2: E q = 0 and P.q = 0  =>  (E - T P') q = 0
 *          3: P.P = 1 and T = E P  =>  |E - T P'|^2 = |E|^2 - T'T   (Pythagoras: explained variances never sum above 100 %)
 *          4: P.P = 1 and T = E P  =>  (E - T P') P = 0 */
#include "lsv.h"
void harness(void){
  double P[HP_M], R[HP_M], Q[HP_M], E[HP_N][HP_M], T[HP_N];
  for(size_t j=0;j<HP_M;j++){ P[j]=in_double(-1e6,1e6); R[j]=in_double(-1e6,1e6); Q[j]=in_double(-1e6,1e6); }
  for(size_t i=0;i<HP_N;i++){ T[i]=in_double(-1e6,1e6); for(size_t j=0;j<HP_M;j++) E[i][j]=in_double(-1e6,1e6); }
  double pq=0, pr=0, rq=0, pp=0; for(size_t j=0;j<HP_M;j++){ pq+=P[j]*Q[j]; pr+=P[j]*R[j]; rq+=R[j]*Q[j]; pp+=P[j]*P[j]; }
#if HP_LEMMA==1
  for(size_t a=0;a<HP_M;a++)for(size_t b=a+1;b<HP_M;b++) ASSUME(P[a]*R[b]==P[b]*R[a]);
  ASSUME(rq==0.0); ASSUME(pr>0 || pr<0);
  CHECK_EQ(pq, 0.0, "P parallel to R, R.q = 0, P.R != 0  =>  P.q = 0");
#elif HP_LEMMA==2
  for(size_t i=0;i<HP_N;i++){ double s=0; for(size_t j=0;j<HP_M;j++) s+=E[i][j]*Q[j]; ASSUME(s==0.0); }
  ASSUME(pq==0.0);
  for(size_t i=0;i<HP_N;i++){ double s=0; for(size_t j=0;j<HP_M;j++) s+=(E[i][j]-T[i]*P[j])*Q[j]; CHECK_EQ(s, 0.0, "E q = 0 and P.q = 0  =>  (E - T P') q = 0"); }
#elif HP_LEMMA==3 || HP_LEMMA==4
  ASSUME(pp==1.0);
  for(size_t i=0;i<HP_N;i++){ double s=0; for(size_t j=0;j<HP_M;j++) s+=E[i][j]*P[j]; ASSUME(T[i]==s); }
#if HP_LEMMA==3
  double r2=0, e2=0, tt=0; for(size_t i=0;i<HP_N;i++){ tt+=T[i]*T[i]; for(size_t j=0;j<HP_M;j++){ double r=E[i][j]-T[i]*P[j]; r2+=r*r; e2+=E[i][j]*E[i][j]; } }
  CHECK_EQ(r2, e2-tt, "|E - T P'|^2 = |E|^2 - T'T");
#else
  for(size_t i=0;i<HP_N;i++){ double s=0; for(size_t j=0;j<HP_M;j++) s+=(E[i][j]-T[i]*P[j])*P[j]; CHECK_EQ(s, 0.0, "(E - T P') P = 0"); }
#endif
#endif
  WITNESS();
}
