/* C01/C03/C09: the purely algebraic closing steps of the assert-then-assume chains, over OPAQUE symbolic vectors (no library
 * code involved: these are the small lemmas that connect the code facts proved on the real NIPALS pass).
 * HP_LEMMA 1: P parallel to R (all 2x2 minors 0), R.q = 0, P.R != 0  =>  P.q = 0
 *          2: E q = 0 and P.q = 0  =>  (E - T P') q = 0
 *          3: P.P = 1 and T = E P  =>  |E - T P'|^2 = |E|^2 - T'T   (Pythagoras: explained variances never sum above 100 %)
 *          4: P.P = 1 and T = E P  =>  (E - T P') P = 0
 * PLS (W = weights, U = y-score, E = X):
 *          5: T = E W, E'T = (T'T) P, T'T != 0  =>  P.W = 1
 *          6: E'T = (T'T) P  =>  (E - T P')' T = 0            7: T = E W and P.W = 1  =>  (E - T P') W = 0
 *          8: F'T = 0 and T2 = F W2  =>  T.T2 = 0   (scores of later latent variables are orthogonal to T; F = deflated X)
 *          9: F W = 0 and W2 parallel to F'U  =>  W.W2 = 0 (weights of later latent variables are orthogonal to W) */
#include "lsv.h"
void harness(void){
  double P[HP_M], R[HP_M], Q[HP_M], E[HP_N][HP_M], T[HP_N];
  for(size_t j=0;j<HP_M;j++){ P[j]=in_double(-1e6,1e6); R[j]=in_double(-1e6,1e6); Q[j]=in_double(-1e6,1e6); }
  for(size_t i=0;i<HP_N;i++){ T[i]=in_double(-1e6,1e6); for(size_t j=0;j<HP_M;j++) E[i][j]=in_double(-1e6,1e6); }
  double pq=0, pr=0, rq=0, pp=0; for(size_t j=0;j<HP_M;j++){ pq+=P[j]*Q[j]; pr+=P[j]*R[j]; rq+=R[j]*Q[j]; pp+=P[j]*P[j]; }
#if HP_LEMMA==1
  for(size_t a=0;a<HP_M;a++)for(size_t b=a+1;b<HP_M;b++) ASSUME(P[a]*R[b]==P[b]*R[a]);
  ASSUME(rq==0.0); ASSUME(pr>0 || pr<0);
  CHECK_EQ(pq, 0.0, "P parallel to R, R.q = 0, P.R != 0  =>  P.q = 0");
#elif HP_LEMMA==2
  for(size_t i=0;i<HP_N;i++){ double s=0; for(size_t j=0;j<HP_M;j++) s+=E[i][j]*Q[j]; ASSUME(s==0.0); }
  ASSUME(pq==0.0);
  for(size_t i=0;i<HP_N;i++){ double s=0; for(size_t j=0;j<HP_M;j++) s+=(E[i][j]-T[i]*P[j])*Q[j]; CHECK_EQ(s, 0.0, "E q = 0 and P.q = 0  =>  (E - T P') q = 0"); }
#elif HP_LEMMA==3 || HP_LEMMA==4
  ASSUME(pp==1.0);
  for(size_t i=0;i<HP_N;i++){ double s=0; for(size_t j=0;j<HP_M;j++) s+=E[i][j]*P[j]; ASSUME(T[i]==s); }
#if HP_LEMMA==3
  double r2=0, e2=0, tt=0; for(size_t i=0;i<HP_N;i++){ tt+=T[i]*T[i]; for(size_t j=0;j<HP_M;j++){ double r=E[i][j]-T[i]*P[j]; r2+=r*r; e2+=E[i][j]*E[i][j]; } }
  CHECK_EQ(r2, e2-tt, "|E - T P'|^2 = |E|^2 - T'T");
#else
  for(size_t i=0;i<HP_N;i++){ double s=0; for(size_t j=0;j<HP_M;j++) s+=(E[i][j]-T[i]*P[j])*P[j]; CHECK_EQ(s, 0.0, "(E - T P') P = 0"); }
#endif
#elif HP_LEMMA>=5
  double W[HP_M], W2[HP_M], U[HP_N], T2[HP_N], F[HP_N][HP_M];
  for(size_t j=0;j<HP_M;j++){ W[j]=in_double(-1e6,1e6); W2[j]=in_double(-1e6,1e6); }
  for(size_t i=0;i<HP_N;i++){ U[i]=in_double(-1e6,1e6); T2[i]=in_double(-1e6,1e6); for(size_t j=0;j<HP_M;j++) F[i][j]=in_double(-1e6,1e6); }
  double tt=0, pw=0; for(size_t i=0;i<HP_N;i++) tt+=T[i]*T[i]; for(size_t j=0;j<HP_M;j++) pw+=P[j]*W[j];
#if HP_LEMMA==5
  for(size_t i=0;i<HP_N;i++){ double s=0; for(size_t j=0;j<HP_M;j++) s+=E[i][j]*W[j]; ASSUME(T[i]==s); }
  for(size_t j=0;j<HP_M;j++){ double s=0; for(size_t i=0;i<HP_N;i++) s+=E[i][j]*T[i]; ASSUME(s==tt*P[j]); }
  ASSUME(tt>0);
  CHECK_EQ(pw, 1.0, "T = E W, E'T = (T'T) P, T'T != 0  =>  P.W = 1");
#elif HP_LEMMA==6
  for(size_t j=0;j<HP_M;j++){ double s=0; for(size_t i=0;i<HP_N;i++) s+=E[i][j]*T[i]; ASSUME(s==tt*P[j]); }
  for(size_t j=0;j<HP_M;j++){ double s=0; for(size_t i=0;i<HP_N;i++) s+=(E[i][j]-T[i]*P[j])*T[i]; CHECK_EQ(s, 0.0, "E'T = (T'T) P  =>  (E - T P')' T = 0"); }
#elif HP_LEMMA==7
  for(size_t i=0;i<HP_N;i++){ double s=0; for(size_t j=0;j<HP_M;j++) s+=E[i][j]*W[j]; ASSUME(T[i]==s); }
  ASSUME(pw==1.0);
  for(size_t i=0;i<HP_N;i++){ double s=0; for(size_t j=0;j<HP_M;j++) s+=(E[i][j]-T[i]*P[j])*W[j]; CHECK_EQ(s, 0.0, "T = E W and P.W = 1  =>  (E - T P') W = 0"); }
#elif HP_LEMMA==8
  for(size_t j=0;j<HP_M;j++){ double s=0; for(size_t i=0;i<HP_N;i++) s+=F[i][j]*T[i]; ASSUME(s==0.0); }
  for(size_t i=0;i<HP_N;i++){ double s=0; for(size_t j=0;j<HP_M;j++) s+=F[i][j]*W2[j]; ASSUME(T2[i]==s); }
  { double s=0; for(size_t i=0;i<HP_N;i++) s+=T[i]*T2[i]; CHECK_EQ(s, 0.0, "F'T = 0 and T2 = F W2  =>  T.T2 = 0"); }
#else
  for(size_t i=0;i<HP_N;i++){ double s=0; for(size_t j=0;j<HP_M;j++) s+=F[i][j]*W[j]; ASSUME(s==0.0); }
  { double Rr[HP_M]; for(size_t j=0;j<HP_M;j++){ double s=0; for(size_t i=0;i<HP_N;i++) s+=F[i][j]*U[i]; Rr[j]=s; }
    for(size_t a=0;a<HP_M;a++)for(size_t b=a+1;b<HP_M;b++) ASSUME(W2[a]*Rr[b]==W2[b]*Rr[a]);
    double rr=0, w2r=0; for(size_t j=0;j<HP_M;j++){ rr+=Rr[j]*Rr[j]; w2r+=W2[j]*Rr[j]; } ASSUME(w2r>0 || w2r<0);
    double s=0; for(size_t j=0;j<HP_M;j++) s+=W[j]*W2[j]; CHECK_EQ(s, 0.0, "F W = 0 and W2 parallel to F'U (not orthogonal to it)  =>  W.W2 = 0"); }
#endif
#endif
  WITNESS();
}
