/* C16: a history of model writes (PCA / CPCA / PLS models of different shapes, to one or two paths), then reads: every
 * read must return the model most recently written to that path, every write must leave the in-memory model untouched.
 * The history (kinds, shapes, paths) is fixed by the driver through HP_STEPS = "W(kind,shape,path) ... R(kind,path) ...";
 * every number stored in a model is symbolic.  The code under test is the real src/io.c (serialisers, table layout,
 * statement text, statement order); SQLite and snprintf are the contract model stubs/sym_sqlite.c in the symbolic run and
 * the real libsqlite3 / libc in the native replay. */
#include "lsv.h"
#include "matrix.h"
#include "vector.h"
#include "tensor.h"
#include "list.h"
#include "pca.h"
#include "cpca.h"
#include "pls.h"
#include "io.h"
#include <math.h>
#ifdef LSV_REPLAY
#include <unistd.h>
#include <stdlib.h>
#include <stdio.h>
#endif

#ifndef LSV_REPLAY
extern int lsv_sql_unsupported, lsv_sql_overflow;
/* the model gave up (statement text it does not know, capacity): inconclusive, reported through the reachability witness */
#define MODEL_OK() ASSUME(!lsv_sql_unsupported && !lsv_sql_overflow)
#define SAME(a, b) ((a) == (b))                                   /* the model stores the double itself */
#else
#define MODEL_OK() ((void)0)
#define SAME(a, b) (fabs((a) - (b)) <= 1e-15 * fmax(1.0, fabs(b)))   /* the property's tolerance for the text round trip */
#endif

static char *PATHS[2] = { "A.lsvdb", "B.lsvdb" };

/* a stored number: finite, |v| in {0} u [1e-9, 1e9] (the quantifier of the property) */
static double val(void){ double v = in_any_double(); ASSUME(v == 0.0 || (v >= 1e-9 && v <= 1e9) || (v <= -1e-9 && v >= -1e9)); return v; }

static void fillv(dvector *a, dvector *b, size_t n){ for(size_t i = 0; i < n; i++){ double v = val(); DVectorAppend(a, v); DVectorAppend(b, v); } }
static void fillm(matrix *a, matrix *b, size_t r, size_t c){
  ResizeMatrix(a, r, c); ResizeMatrix(b, r, c);
  for(size_t i = 0; i < r; i++) for(size_t j = 0; j < c; j++){ double v = val(); a->data[i][j] = v; b->data[i][j] = v; }
}
static void fillt(tensor *a, tensor *b, size_t nb, size_t r, size_t c){
  for(size_t k = 0; k < nb; k++){
    AddTensorMatrix(a, r + k, c); AddTensorMatrix(b, r + k, c);
    for(size_t i = 0; i < r + k; i++) for(size_t j = 0; j < c; j++){ double v = val(); a->m[k]->data[i][j] = v; b->m[k]->data[i][j] = v; }
  }
}
static void filll(dvectorlist *a, dvectorlist *b, size_t nv, size_t len){
  for(size_t k = 0; k < nv; k++){
    dvector *v; NewDVector(&v, len + k);
    for(size_t i = 0; i < len + k; i++) v->data[i] = val();
    DVectorListAppend(a, v); DVectorListAppend(b, v); DelDVector(&v);
  }
}
static void eqv(dvector *a, dvector *b, const char *what){
  CHECK(a->size == b->size, "vector field: same length as the model last written");
  if(a->size == b->size) for(size_t i = 0; i < b->size; i++) CHECK(SAME(a->data[i], b->data[i]), "vector field: same numbers as the model last written");
}
static void eqm(matrix *a, matrix *b, const char *what){
  CHECK(a->row == b->row && a->col == b->col, "matrix field: same dimensions as the model last written");
  if(a->row == b->row && a->col == b->col) for(size_t i = 0; i < b->row; i++) for(size_t j = 0; j < b->col; j++) CHECK(SAME(a->data[i][j], b->data[i][j]), "matrix field: same numbers as the model last written");
}
static void eqt(tensor *a, tensor *b, const char *what){
  CHECK(a->order == b->order, "tensor field: same order as the model last written");
  if(a->order == b->order) for(size_t k = 0; k < b->order; k++) eqm(a->m[k], b->m[k], what);
}
static void eql(dvectorlist *a, dvectorlist *b, const char *what){
  CHECK(a->size == b->size, "vector-list field: same number of vectors as the model last written");
  if(a->size == b->size) for(size_t k = 0; k < b->size; k++) eqv(a->d[k], b->d[k], what);
}

/* ------------------------------------------------------------------ PCA */
static void fill_pca(PCAMODEL *a, PCAMODEL *b, int s){
  if(s == 0) return;                                             /* the empty model: every field stays empty */
  size_t n = s == 1 ? 2 : 3, m = s == 3 ? 2 : s, k = s == 3 ? 2 : 1;      /* s1: 2x1,1pc  s2: 3x2,1pc  s3: 3x2,2pc */
  fillv(a->colaverage, b->colaverage, m); fillv(a->colscaling, b->colscaling, m); fillv(a->varexp, b->varexp, k);
  fillm(a->scores, b->scores, n, k); fillm(a->loadings, b->loadings, m, k);
}
static void eq_pca(PCAMODEL *a, PCAMODEL *b){
  eqv(a->colaverage, b->colaverage, "colaverage"); eqv(a->colscaling, b->colscaling, "colscaling"); eqv(a->varexp, b->varexp, "varexp");
  eqm(a->scores, b->scores, "scores"); eqm(a->loadings, b->loadings, "loadings");
}
/* ------------------------------------------------------------------ CPCA */
static void fill_cpca(CPCAMODEL *a, CPCAMODEL *b, int s){
  if(s == 0) return;
  size_t nb = s == 1 ? 1 : 2, n = 2, k = s == 3 ? 2 : 1;         /* s1: one block, s2: two blocks, s3: two blocks and two components (tensor blocks with 2 columns) */
  fillv(a->scaling_factor, b->scaling_factor, nb); fillv(a->total_expvar, b->total_expvar, k);
  fillt(a->block_scores, b->block_scores, nb, n, k); fillt(a->block_loadings, b->block_loadings, nb, s == 3 ? 1 : s, k);
  fillm(a->super_scores, b->super_scores, n, k); fillm(a->super_weights, b->super_weights, nb, k);
  filll(a->block_expvar, b->block_expvar, nb, k); filll(a->colaverage, b->colaverage, nb, s == 3 ? 1 : s); filll(a->colscaling, b->colscaling, nb, s == 3 ? 1 : s);
}
static void eq_cpca(CPCAMODEL *a, CPCAMODEL *b){
  eqv(a->scaling_factor, b->scaling_factor, ""); eqv(a->total_expvar, b->total_expvar, "");
  eqt(a->block_scores, b->block_scores, ""); eqt(a->block_loadings, b->block_loadings, "");
  eqm(a->super_scores, b->super_scores, ""); eqm(a->super_weights, b->super_weights, "");
  eql(a->block_expvar, b->block_expvar, ""); eql(a->colaverage, b->colaverage, ""); eql(a->colscaling, b->colscaling, "");
}
/* ------------------------------------------------------------------ PLS */
#define PLS_M(F) F(xscores) F(xloadings) F(xweights) F(yscores) F(yloadings) F(recalculated_y) F(recalc_residuals) F(predicted_y) F(pred_residuals) \
  F(r2y_recalculated) F(r2y_validation) F(q2y) F(sdep) F(sdec) F(bias) F(roc_auc_recalculated) F(roc_auc_validation) \
  F(precision_recall_ap_recalculated) F(precision_recall_ap_validation) F(yscrambling)
#define PLS_V(F) F(b) F(xvarexp) F(xcolaverage) F(xcolscaling) F(ycolaverage) F(ycolscaling)
#define PLS_T(F) F(roc_recalculated) F(roc_validation) F(precision_recall_recalculated) F(precision_recall_validation)
static void fill_pls(PLSMODEL *a, PLSMODEL *b, int s){
  if(s == 0) return;
  size_t n = 2, p = s, q = s, k = 1;                              /* s1: 2 objects, 1 x, 1 y, 1 LV, validation fields EMPTY; s2: 2 x, 2 y, everything filled */
  fillm(a->xscores, b->xscores, n, k); fillm(a->xloadings, b->xloadings, p, k); fillm(a->xweights, b->xweights, p, k);
  fillm(a->yscores, b->yscores, n, k); fillm(a->yloadings, b->yloadings, q, k);
  fillv(a->b, b->b, k); fillv(a->xvarexp, b->xvarexp, k);
  fillv(a->xcolaverage, b->xcolaverage, p); fillv(a->xcolscaling, b->xcolscaling, p); fillv(a->ycolaverage, b->ycolaverage, q); fillv(a->ycolscaling, b->ycolscaling, q);
  fillm(a->recalculated_y, b->recalculated_y, n, q * k); fillm(a->recalc_residuals, b->recalc_residuals, n, q * k);
  if(s < 2) return;                                              /* optional (validation / classification) fields stay empty */
  fillm(a->predicted_y, b->predicted_y, n, q * k); fillm(a->pred_residuals, b->pred_residuals, n, q * k);
  fillm(a->r2y_recalculated, b->r2y_recalculated, k, q); fillm(a->r2y_validation, b->r2y_validation, k, q); fillm(a->q2y, b->q2y, k, q);
  fillm(a->sdep, b->sdep, k, q); fillm(a->sdec, b->sdec, k, q); fillm(a->bias, b->bias, k, q);
  fillm(a->roc_auc_recalculated, b->roc_auc_recalculated, k, q); fillm(a->roc_auc_validation, b->roc_auc_validation, k, q);
  fillm(a->precision_recall_ap_recalculated, b->precision_recall_ap_recalculated, k, q); fillm(a->precision_recall_ap_validation, b->precision_recall_ap_validation, k, q);
  fillm(a->yscrambling, b->yscrambling, 1, 3);
  fillt(a->roc_recalculated, b->roc_recalculated, 1, 2, 2); fillt(a->roc_validation, b->roc_validation, 2, 1, 2);
  fillt(a->precision_recall_recalculated, b->precision_recall_recalculated, 1, 1, 2); fillt(a->precision_recall_validation, b->precision_recall_validation, 1, 2, 2);
}
static void eq_pls(PLSMODEL *a, PLSMODEL *b){
#define EM(f) eqm(a->f, b->f, #f);
#define EV(f) eqv(a->f, b->f, #f);
#define ET(f) eqt(a->f, b->f, #f);
  PLS_M(EM) PLS_V(EV) PLS_T(ET)
}

/* ------------------------------------------------------------------ history */
static void *last_ref[2]; static int last_kind[2] = { -1, -1 };

static void do_write(int kind, int shape, int path){
  if(kind == 0){ PCAMODEL *m, *ref; NewPCAModel(&m); NewPCAModel(&ref); fill_pca(m, ref, shape); WritePCA(PATHS[path], m); MODEL_OK(); eq_pca(m, ref); last_ref[path] = ref; }
  else if(kind == 1){ CPCAMODEL *m, *ref; NewCPCAModel(&m); NewCPCAModel(&ref); fill_cpca(m, ref, shape); WriteCPCA(PATHS[path], m); MODEL_OK(); eq_cpca(m, ref); last_ref[path] = ref; }
  else { PLSMODEL *m, *ref; NewPLSModel(&m); NewPLSModel(&ref); fill_pls(m, ref, shape); WritePLS(PATHS[path], m); MODEL_OK(); eq_pls(m, ref); last_ref[path] = ref; }
  last_kind[path] = kind;
}
static void do_read(int kind, int path){
  ASSUME(last_kind[path] == kind);                               /* the driver only asks for the kind last written to the path */
  if(kind == 0){ PCAMODEL *r; NewPCAModel(&r); ReadPCA(PATHS[path], r); MODEL_OK(); eq_pca(r, (PCAMODEL *)last_ref[path]); }
  else if(kind == 1){ CPCAMODEL *r; NewCPCAModel(&r); ReadCPCA(PATHS[path], r); MODEL_OK(); eq_cpca(r, (CPCAMODEL *)last_ref[path]); }
  else { PLSMODEL *r; NewPLSModel(&r); ReadPLS(PATHS[path], r); MODEL_OK(); eq_pls(r, (PLSMODEL *)last_ref[path]); }
}
#ifdef LSV_REPLAY
static char lsv_dir[] = "/tmp/lsv_c16_XXXXXX";
static void lsv_cleanup(void){ remove("A.lsvdb"); remove("B.lsvdb"); if(chdir("/") == 0) rmdir(lsv_dir); }
#endif
#define W(k, s, p) do_write(k, s, p);
#define R(k, p) do_read(k, p);

void harness(void){
#ifdef LSV_REPLAY
  char *d = mkdtemp(lsv_dir);                                     /* the real SQLite writes real files: a private directory, removed at exit */
  if(d == NULL || chdir(d) != 0) exit(77);
  atexit(lsv_cleanup);
#endif
  HP_STEPS
  WITNESS();
}
