/* C14: tensor and dvectorlist containers — concrete operation sequence (driver), symbolic contents/indices, shadow model. */
#include "lsv.h"
#include "tensor.h"
#include "list.h"
#include <math.h>
#define MAXO 4
#define MAXD 6
typedef struct { size_t o; size_t r[MAXO], c[MAXO]; double v[MAXO][MAXD][MAXD]; } shadow;
#define OP_ADD 1         /* arg = r*8+c : AddTensorMatrix */
#define OP_APPENDM 2     /* arg = r*8+c : TensorAppendMatrix of a symbolic matrix (row count must match the last block, else clean abort) */
#define OP_APPENDCOL 3   /* arg = order*8+len */
#define OP_APPENDROW 4   /* arg = order*8+len */
#define OP_SETGET 5      /* symbolic indices anywhere */
#define OP_COPYNEW 6     /* TensorCopy into an empty tensor; mutate the copy; source unchanged */
#define OP_COPYINTO 7    /* arg = order count of an existing destination whose blocks are 2x2 */
#define OP_SET 8
static double fin(void){ double v=in_any_double(); ASSUME(v==v && v-v==0 && (v < 99999998.0 || v > 100000000.0)); return v; }
static void same(tensor *t, shadow *s){
  CHECK(t->order==s->o, "order as defined by the operation");
  if(s->o>0) CHECK(__CPROVER_w_ok(t->m, s->o*sizeof(matrix*)), "INV: block array owns >= order pointers");
  for(size_t k=0;k<s->o;k++){
    CHECK(t->m[k]->row==s->r[k] && t->m[k]->col==s->c[k], "block shape as defined by the operation");
    for(size_t i=0;i<s->r[k];i++)for(size_t j=0;j<s->c[k];j++) CHECK(t->m[k]->data[i][j]==s->v[k][i][j], "block contents as defined by the operation");
    for(size_t q=k+1;q<s->o;q++) CHECK(t->m[k]!=t->m[q], "INV: blocks are distinct objects");
  }
}
static void step(int op, int arg, tensor **pt, shadow *s){
  tensor *t=*pt;
  if(op==OP_ADD){ AddTensorMatrix(t,arg/8,arg%8); s->r[s->o]=arg/8; s->c[s->o]=arg%8; for(size_t i=0;i<MAXD;i++)for(size_t j=0;j<MAXD;j++) s->v[s->o][i][j]=0; s->o++; }
  else if(op==OP_APPENDM){
    matrix *m; NewMatrix(&m,arg/8,arg%8); for(size_t i=0;i<m->row;i++)for(size_t j=0;j<m->col;j++){ m->data[i][j]=fin(); s->v[s->o][i][j]=m->data[i][j]; }
    TensorAppendMatrix(t,m);       /* mismatching row count: clean abort (path ends) */
    s->r[s->o]=arg/8; s->c[s->o]=arg%8; s->o++;
    for(size_t i=0;i<m->row;i++)for(size_t j=0;j<m->col;j++) m->data[i][j]=fin();     /* appended block is a deep copy */
    DelMatrix(&m);
  }
  else if(op==OP_APPENDCOL){
    size_t k=arg/8, n=arg%8; dvector *v; NewDVector(&v,n); double val[MAXD]; for(size_t i=0;i<n;i++){ val[i]=fin(); v->data[i]=val[i]; }
    TensorAppendColumn(t,k,v); DelDVector(&v);
    size_t R=s->r[k], C=s->c[k]; size_t nr=(R!=0)?(n>R?n:R):n;
    for(size_t i=R;i<nr;i++)for(size_t j=0;j<C;j++) s->v[k][i][j]=0;
    for(size_t i=0;i<nr;i++) s->v[k][i][C]= i<n?val[i]:0;
    s->r[k]=nr; s->c[k]=C+1;
  }
  else if(op==OP_APPENDROW){
    size_t k=arg/8, n=arg%8; dvector *v; NewDVector(&v,n); double val[MAXD]; for(size_t i=0;i<n;i++){ val[i]=fin(); v->data[i]=val[i]; }
    TensorAppendRow(t,k,v); DelDVector(&v);      /* the library refuses (clean abort) a row whose length equals the block's row count */
    size_t R=s->r[k], C=s->c[k]; size_t nc=(C!=0)?(n>C?n:C):n;
    for(size_t i=0;i<R;i++)for(size_t j=C;j<nc;j++) s->v[k][i][j]=0;
    for(size_t j=0;j<nc;j++) s->v[k][R][j]= j<n?val[j]:0;
    s->r[k]=R+1; s->c[k]=nc;
  }
  else if(op==OP_SETGET){
    size_t k=(size_t)lsv_i(), i=(size_t)lsv_i(), j=(size_t)lsv_i(); double x=fin();
    double g=getTensorValue(t,k,i,j);
    int inr = k<s->o && i<s->r[k] && j<s->c[k];
    if(inr) CHECK(g==s->v[k][i][j], "in-range get returns the cell"); else CHECK(g!=g, "out-of-range get returns the NaN sentinel");
    if(inr){ setTensorValue(t,k,i,j,x); s->v[k][i][j]=x; }
    else { setTensorValue(t,k,i,j,x); CHECK(0, "out-of-range set must abort cleanly (not reached)"); }
  }
  else if(op==OP_COPYNEW){
    tensor *c; initTensor(&c); TensorCopy(t,&c); same(c,s);
    for(size_t k=0;k<c->order;k++)for(size_t i=0;i<c->m[k]->row;i++)for(size_t j=0;j<c->m[k]->col;j++) c->m[k]->data[i][j]=fin();
    same(t,s); DelTensor(&c);
  }
  else if(op==OP_COPYINTO){
    tensor *c; initTensor(&c); for(int k=0;k<arg;k++){ AddTensorMatrix(c,2,2); for(size_t i=0;i<2;i++)for(size_t j=0;j<2;j++) c->m[k]->data[i][j]=fin(); }
    TensorCopy(t,&c); same(c,s);
    for(size_t k=0;k<t->order;k++)for(size_t i=0;i<t->m[k]->row;i++)for(size_t j=0;j<t->m[k]->col;j++) t->m[k]->data[i][j]=fin();
    same(c,s); DelTensor(pt); *pt=c;
  }
  else if(op==OP_SET){ double x=fin(); TensorSet(t,x); for(size_t k=0;k<s->o;k++)for(size_t i=0;i<s->r[k];i++)for(size_t j=0;j<s->c[k];j++) s->v[k][i][j]=x; }
  same(*pt,s);
}
void harness(void){
#if HP_LIST
  /* dvectorlist: HP_N appends of vectors of length 0..2 (symbolic contents): deep copies, sizes, contents; then delete */
  dvectorlist *l; initDVectorList(&l); double val[4][3]; size_t len[4];
  for(size_t k=0;k<HP_N;k++){ len[k]=(k*2+HP_L)%3; dvector *v; NewDVector(&v,len[k]); for(size_t i=0;i<len[k];i++){ val[k][i]=fin(); v->data[i]=val[k][i]; }
    DVectorListAppend(l,v); for(size_t i=0;i<len[k];i++) v->data[i]=fin(); DelDVector(&v); }
  CHECK(l->size==HP_N, "list size = number of appends");
  for(size_t k=0;k<HP_N;k++){ CHECK(l->d[k]->size==len[k], "element size kept"); for(size_t i=0;i<len[k];i++) CHECK(l->d[k]->data[i]==val[k][i], "element is a deep copy of the appended vector"); }
  DelDVectorList(&l);
#else
  tensor *t; shadow s; s.o=0; initTensor(&t);
  same(t,&s);
  step(HP_OP1,HP_A1,&t,&s);
#if HP_OP2 != 0
  step(HP_OP2,HP_A2,&t,&s);
#endif
#if HP_OP3 != 0
  step(HP_OP3,HP_A3,&t,&s);
#endif
#if HP_OP4 != 0
  step(HP_OP4,HP_A4,&t,&s);
#endif
  DelTensor(&t);
#endif
  WITNESS();
}
