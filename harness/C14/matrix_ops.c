/* C14: matrix container — a concrete sequence of up to three operations (op codes and operand lengths fixed by the
 * driver, which also guarantees the sequence is valid) applied to a concrete initial shape with SYMBOLIC contents,
 * indices and values, against a shadow model. CBMC's memory model decides bounds / use-after-free / double free;
 * the shadow decides counts and contents; the representation invariant is asserted after every step. */
#include "lsv.h"
#include "matrix.h"
#include "vector.h"
#include <math.h>

#define MAXD 8
typedef struct { size_t r, c; double v[MAXD][MAXD]; } shadow;

#define OP_NONE 0
#define OP_RESIZE 1      /* arg = r*8+c */
#define OP_APPENDROW 2   /* arg = operand length */
#define OP_APPENDCOL 3
#define OP_APPENDUIROW 4
#define OP_APPENDUICOL 5
#define OP_DELROW 6      /* symbolic in-range index */
#define OP_DELCOL 7
#define OP_SETGET 8      /* symbolic indices, any value of size_t */
#define OP_COPYNEW 9     /* copy into an empty matrix, mutate the copy, source unchanged */
#define OP_COPYINTO 10   /* arg = r*8+c of an existing destination; continue with the copy, then mutate source */
#define OP_GETROWCOL 11
#define OP_SET 12

static void inv(matrix *m){
  CHECK(m != NULL, "matrix allocated");
  if(m->row > 0){
    CHECK(__CPROVER_w_ok(m->data, m->row*sizeof(double*)), "INV: row-pointer array owns >= row pointers");
    for(size_t i=0;i<m->row;i++){
      if(m->col > 0) CHECK(__CPROVER_w_ok(m->data[i], m->col*sizeof(double)), "INV: every row owns >= col doubles");
      for(size_t k=i+1;k<m->row;k++) CHECK(!__CPROVER_same_object(m->data[i], m->data[k]), "INV: rows are distinct objects");
    }
  }
}
static void same(matrix *m, shadow *s, const char *what){
  CHECK(m->row==s->r && m->col==s->c, "row/col counts as defined by the operation");
  for(size_t i=0;i<s->r;i++)for(size_t j=0;j<s->c;j++) CHECK(m->data[i][j]==s->v[i][j], "cell contents as defined by the operation (old cells kept, new cells zero)");
  inv(m);
}
static double fin(void){ double v=in_any_double(); ASSUME(v==v && v-v==0 && (v < 99999998.0 || v > 100000000.0)); return v; }

static void step(int op, int arg, matrix **pm, shadow *s){
  matrix *m=*pm;
  if(op==OP_RESIZE){
    size_t r=arg/8, c=arg%8; ResizeMatrix(m,r,c); s->r=r; s->c=c; for(size_t i=0;i<r;i++)for(size_t j=0;j<c;j++) s->v[i][j]=0;
  } else if(op==OP_APPENDROW || op==OP_APPENDUIROW){
    size_t n=arg; double val[MAXD];
    if(op==OP_APPENDROW){ dvector *v; NewDVector(&v,n); for(size_t i=0;i<n;i++){ val[i]=fin(); v->data[i]=val[i]; } MatrixAppendRow(m,v); DelDVector(&v); }
    else { uivector *v; NewUIVector(&v,n); for(size_t i=0;i<n;i++){ size_t u=in_size(0,1000000); val[i]=(double)u; v->data[i]=u; } MatrixAppendUIRow(m,v); DelUIVector(&v); }
    size_t nc = (s->c!=0) ? (n>s->c?n:s->c) : n;
    for(size_t i=0;i<s->r;i++)for(size_t j=s->c;j<nc;j++) s->v[i][j]=0;
    for(size_t j=0;j<nc;j++) s->v[s->r][j] = j<n ? val[j] : 0;
    s->r+=1; s->c=nc;
  } else if(op==OP_APPENDCOL || op==OP_APPENDUICOL){
    size_t n=arg; double val[MAXD];
    if(op==OP_APPENDCOL){ dvector *v; NewDVector(&v,n); for(size_t i=0;i<n;i++){ val[i]=fin(); v->data[i]=val[i]; } MatrixAppendCol(m,v); DelDVector(&v); }
    else { uivector *v; NewUIVector(&v,n); for(size_t i=0;i<n;i++){ size_t u=in_size(0,1000000); val[i]=(double)u; v->data[i]=u; } MatrixAppendUICol(m,v); DelUIVector(&v); }
    size_t nr = (s->r!=0) ? (n>s->r?n:s->r) : n; size_t nc = s->c+1;
    for(size_t i=s->r;i<nr;i++)for(size_t j=0;j<s->c;j++) s->v[i][j]=0;
    for(size_t i=0;i<nr;i++) s->v[i][s->c] = i<n ? val[i] : 0;
    s->r=nr; s->c=nc;
  } else if(op==OP_DELROW){
    size_t k=in_size(0,s->r-1); MatrixDeleteRowAt(m,k);
    for(size_t i=0;i+1<s->r;i++) if(i>=k) for(size_t j=0;j<s->c;j++) s->v[i][j]=s->v[i+1][j];
    s->r-=1;
  } else if(op==OP_DELCOL){
    size_t k=in_size(0,s->c-1); MatrixDeleteColAt(m,k);
    for(size_t j=0;j+1<s->c;j++) if(j>=k) for(size_t i=0;i<s->r;i++) s->v[i][j]=s->v[i][j+1];
    s->c-=1;
  } else if(op==OP_SETGET){
    size_t i=(size_t)lsv_i(), j=(size_t)lsv_i(); double v=fin();
    double g=getMatrixValue(m,i,j);
    if(i<s->r && j<s->c) CHECK(g==s->v[i][j], "in-range get returns the cell"); else CHECK(g!=g, "out-of-range get returns the NaN sentinel");
    setMatrixValue(m,i,j,v);
    if(i<s->r && j<s->c) s->v[i][j]=v;      /* out-of-range set: error message, nothing changes */
  } else if(op==OP_COPYNEW){
    matrix *c; initMatrix(&c); MatrixCopy(m,&c); same(c,s,"copy");
    for(size_t i=0;i<c->row;i++)for(size_t j=0;j<c->col;j++) c->data[i][j]=fin();       /* mutate the copy */
    for(size_t i=0;i<s->r;i++){ CHECK(c->row==0 || !__CPROVER_same_object(c->data[i], m->data[i]), "copy is deep: rows not shared"); }
    DelMatrix(&c);
  } else if(op==OP_COPYINTO){
    matrix *c; NewMatrix(&c,arg/8,arg%8); for(size_t i=0;i<c->row;i++)for(size_t j=0;j<c->col;j++) c->data[i][j]=fin();
    MatrixCopy(m,&c); same(c,s,"copy");
    for(size_t i=0;i<m->row;i++)for(size_t j=0;j<m->col;j++) m->data[i][j]=fin();       /* mutate the SOURCE, keep working on the copy */
    same(c,s,"copy after source mutation");
    DelMatrix(pm); *pm=c;
  } else if(op==OP_GETROWCOL){
    size_t i=(size_t)lsv_i(), j=(size_t)lsv_i();
    dvector *r=getMatrixRow(m,i);
    if(i<s->r){ CHECK(r!=NULL && r->size==s->c, "row copy has col entries"); for(size_t k=0;k<s->c;k++) CHECK(r->data[k]==s->v[i][k], "row copy contents"); DelDVector(&r); } else CHECK(r==NULL, "out-of-range row: NULL");
    dvector *c=getMatrixColumn(m,j);
    if(j<s->c){ CHECK(c!=NULL && c->size==s->r, "column copy has row entries"); for(size_t k=0;k<s->r;k++) CHECK(c->data[k]==s->v[k][j], "column copy contents"); DelDVector(&c); } else CHECK(c==NULL, "out-of-range column: NULL");
  } else if(op==OP_SET){
    double v=fin(); MatrixSet(m,v); for(size_t i=0;i<s->r;i++)for(size_t j=0;j<s->c;j++) s->v[i][j]=v;
  }
  same(*pm,s,"after step");
}

void harness(void){
  matrix *m; shadow s; s.r=0; s.c=0;
#if HP_INIT < 0
  initMatrix(&m);
#else
  NewMatrix(&m, HP_INIT/8, HP_INIT%8); s.r=HP_INIT/8; s.c=HP_INIT%8;
  for(size_t i=0;i<s.r;i++)for(size_t j=0;j<s.c;j++){ s.v[i][j]=fin(); m->data[i][j]=s.v[i][j]; }
#endif
  same(m,&s,"initial");
  step(HP_OP1, HP_A1, &m, &s);
#if HP_OP2 != 0
  step(HP_OP2, HP_A2, &m, &s);
#endif
#if HP_OP3 != 0
  step(HP_OP3, HP_A3, &m, &s);
#endif
  DelMatrix(&m);      /* no double free / invalid free at the end of the history */
  WITNESS();
}
