/* C14: strvector container — append / set / get / resize / extend with short concrete strings (symbolic first character),
 * then every container is deleted: CBMC's memory model decides bounds, use-after-free and double free; copies must be deep
 * (E-BITS). HP_SEQ selects the history. */
#include "lsv.h"
#include "vector.h"
#include <string.h>
static char buf[3][4];
static char *str(int k){ buf[k][0]=(char)in_int('a','z'); buf[k][1]=(char)('0'+k); buf[k][2]=0; return buf[k]; }
void harness(void){
  strvector *s; initStrVector(&s);
  char *a=str(0), *b=str(1), *c=str(2);
#if HP_SEQ==0
  StrVectorAppend(s,a); StrVectorAppend(s,b);
  CHECK(s->size==2 && strcmp(getStr(s,0),a)==0 && strcmp(getStr(s,1),b)==0, "append keeps earlier strings and adds the new one");
  CHECK(getStr(s,0)!=a && getStr(s,1)!=b, "stored strings are copies");
  setStr(s,0,c); CHECK(strcmp(getStr(s,0),c)==0 && strcmp(getStr(s,1),b)==0, "set replaces one string only");
  DelStrVector(&s);
#elif HP_SEQ==1
  strvector *t; NewStrVector(&t,2); setStr(t,0,a); setStr(t,1,b);
  StrVectorAppend(s,c);
  strvector *e=StrVectorExtend(s,t);
  CHECK(e->size==3 && strcmp(getStr(e,0),c)==0 && strcmp(getStr(e,1),a)==0 && strcmp(getStr(e,2),b)==0, "extend concatenates");
  CHECK(getStr(e,0)!=getStr(s,0) && getStr(e,1)!=getStr(t,0) && getStr(e,2)!=getStr(t,1), "extend result shares no string with its sources (deep copy)");
  setStr(e,1,c); CHECK(strcmp(getStr(t,0),a)==0, "mutating the result never changes a source");
  DelStrVector(&e); DelStrVector(&s); DelStrVector(&t);      /* every container released exactly once */
#else
  StrVectorAppend(s,a); StrVectorResize(s,2);
  CHECK(s->size==2 && getStr(s,0)[0]==0 && getStr(s,1)[0]==0, "resize gives empty strings");
  StrVectorAppendInt(s, 42); CHECK(s->size==3, "append int grows the vector");
  DelStrVector(&s);
#endif
  WITNESS();
}
