/* C14: dvector / uivector / ivector containers — concrete operation sequence (driver), symbolic contents, indices
 * and values, shadow model; HP_KIND: 0 = dvector, 1 = uivector, 2 = ivector. */
#include "lsv.h"
#include "vector.h"
#include <math.h>
#define MAXN 12
#if HP_KIND==0
typedef dvector VEC; typedef double ELT;
#define INITV initDVector
#define NEWV NewDVector
#define DELV DelDVector
#define APPENDV DVectorAppend
#define REMOVEV DVectorRemoveAt
#define EXTENDV DVectorExtend
#define HAS_RESIZE 1
#define RESIZEV DVectorResize
#define HAS_COPY 1
#define SETV(v,i,x) do{ if((i) < (v)->size) setDVectorValue(v,i,x); }while(0)   /* out-of-range set aborts cleanly: exercised in GETSET_OOR */
#define GETV getDVectorValue
static ELT elt(void){ double v=in_any_double(); ASSUME(v==v); return v; }
#elif HP_KIND==1
typedef uivector VEC; typedef size_t ELT;
#define INITV initUIVector
#define NEWV NewUIVector
#define DELV DelUIVector
#define APPENDV UIVectorAppend
#define REMOVEV UIVectorRemoveAt
#define EXTENDV UIVectorExtend
#define HAS_RESIZE 1
#define RESIZEV UIVectorResize
#define HAS_COPY 0
#define SETV(v,i,x) setUIVectorValue(v,i,x)
#define GETV getUIVectorValue
static ELT elt(void){ return (size_t)lsv_i(); }
#else
typedef ivector VEC; typedef int ELT;
#define INITV initIVector
#define NEWV NewIVector
#define DELV DelIVector
#define APPENDV IVectorAppend
#define REMOVEV IVectorRemoveAt
#define EXTENDV IVectorExtend
#define HAS_RESIZE 0
#define HAS_COPY 0
#define SETV(v,i,x) setIVectorValue(v,i,x)
#define GETV getIVectorValue
static ELT elt(void){ return (int)in_int(-2147483647-1, 2147483647); }
#endif
typedef struct { size_t n; ELT v[MAXN]; } shadow;

#define OP_APPEND 1
#define OP_REMOVE 2      /* symbolic index, ANY size_t: out of range = no-op */
#define OP_RESIZE 3      /* arg = new size */
#define OP_EXTEND 4      /* arg = size of the second operand; result replaces the vector, sources unchanged */
#define OP_SETGET 5      /* symbolic in-range index */
#define OP_COPYTO 6      /* dvector only: copy into a destination of size arg (0 = empty), continue with the copy */
#define OP_GETSET_OOR 7  /* symbolic index anywhere: in range -> value, out of range -> clean abort / no effect */
#define OP_SORT 8        /* uivector only */

/* "fails safely": abort() is CBMC's built-in model (the path ends); reaching the statement after an out-of-range
 * accessor, or touching memory before the abort, is what the obligations exclude */

static void same(VEC *v, shadow *s){
  CHECK(v->size==s->n, "size as defined by the operation");
  if(s->n>0) CHECK(__CPROVER_w_ok(v->data, s->n*sizeof(ELT)), "INV: data owns >= size elements");
  for(size_t i=0;i<s->n;i++) CHECK(v->data[i]==s->v[i] || (v->data[i]!=v->data[i] && s->v[i]!=s->v[i]), "contents as defined by the operation");
}
static void step(int op, int arg, VEC **pv, shadow *s){
  VEC *v=*pv;
  if(op==OP_APPEND){ ELT x=elt(); APPENDV(v,x); s->v[s->n++]=x; }
  else if(op==OP_REMOVE){ size_t k=(size_t)lsv_i(); REMOVEV(v,k); if(k<s->n){ for(size_t i=k;i+1<s->n;i++) s->v[i]=s->v[i+1]; s->n--; } }
#if HAS_RESIZE
  else if(op==OP_RESIZE){ RESIZEV(v,(size_t)arg); s->n=arg; for(size_t i=0;i<s->n;i++) s->v[i]=0; }
#endif
  else if(op==OP_EXTEND){
    VEC *w; NEWV(&w,(size_t)arg); ELT wv[MAXN]; for(size_t i=0;i<(size_t)arg;i++){ wv[i]=elt(); w->data[i]=wv[i]; }
    VEC *e=EXTENDV(v,w);
    same(v,s); for(size_t i=0;i<(size_t)arg;i++) CHECK(w->data[i]==wv[i] || wv[i]!=wv[i], "extend leaves its second source unchanged");
    CHECK(e!=v && e!=w && (e->size==0 || ((s->n==0 || !__CPROVER_same_object(e->data,v->data)) && (arg==0 || !__CPROVER_same_object(e->data,w->data)))), "extend result shares no storage with its sources");
    for(size_t i=0;i<(size_t)arg;i++) s->v[s->n+i]=wv[i]; s->n+=arg;
    DELV(&w); DELV(pv); *pv=e;
  }
  else if(op==OP_SETGET){ size_t k=in_size(0,s->n-1); CHECK(GETV(v,k)==s->v[k] || s->v[k]!=s->v[k], "get returns the element"); ELT x=elt(); SETV(v,k,x); s->v[k]=x; }
#if HAS_COPY
  else if(op==OP_COPYTO){
    VEC *c; if(arg==0) initDVector(&c); else { NewDVector(&c,(size_t)arg); for(size_t i=0;i<(size_t)arg;i++) c->data[i]=elt(); }
    DVectorCopy(v,c); same(c,s);
    for(size_t i=0;i<v->size;i++) v->data[i]=elt();          /* mutate the source */
    same(c,s); CHECK(s->n==0 || !__CPROVER_same_object(c->data,v->data), "copy is deep");
    DELV(pv); *pv=c;
  }
#endif
  else if(op==OP_GETSET_OOR){
    size_t k=(size_t)lsv_i();
#if HP_KIND==0
    ELT x=elt();
    if(k<s->n){ setDVectorValue(v,k,x); s->v[k]=x; CHECK(getDVectorValue(v,k)==x || x!=x, "in-range set/get"); }
    else { setDVectorValue(v,k,x); CHECK(0, "out-of-range set must abort cleanly (not reached)"); }
#else
    ELT x=elt(); SETV(v,k,x); if(k<s->n) s->v[k]=x;      /* out-of-range set: message, nothing changes */
    if(k<s->n) CHECK(GETV(v,k)==x, "in-range get"); else { GETV(v,k); CHECK(0, "out-of-range get must abort cleanly (not reached)"); }
#endif
  }
#if HP_KIND==1
  else if(op==OP_SORT){
    SortUIVector(v);
    CHECK(v->size==s->n, "sort keeps the size");
    for(size_t i=0;i+1<s->n;i++) CHECK(v->data[i]<=v->data[i+1], "sorted ascending");
    int used[MAXN]; for(size_t i=0;i<s->n;i++) used[i]=0;
    for(size_t i=0;i<s->n;i++){ int f=0; for(size_t k=0;k<s->n;k++) if(!f && !used[k] && s->v[k]==v->data[i]){ used[k]=1; f=1; } CHECK(f, "sort returns a permutation of the elements"); }
    for(size_t i=0;i<s->n;i++) s->v[i]=v->data[i];
  }
#endif
  same(*pv,s);
}
void harness(void){
  VEC *v; shadow s; s.n=0;
#if HP_INIT < 0
  INITV(&v);
#else
  NEWV(&v,HP_INIT); s.n=HP_INIT; for(size_t i=0;i<s.n;i++){ s.v[i]=elt(); v->data[i]=s.v[i]; }
#endif
  same(v,&s);
  step(HP_OP1,HP_A1,&v,&s);
#if HP_OP2 != 0
  step(HP_OP2,HP_A2,&v,&s);
#endif
#if HP_OP3 != 0
  step(HP_OP3,HP_A3,&v,&s);
#endif
  DELV(&v);
  WITNESS();
}
