/* C17: the first object returned by both max-min selections is the object farthest from the centroid (unique farthest object),
 * E-REAL: HP_N objects x HP_C variables symbolic, one object requested (the max-min loop does not run; the pairwise distance
 * kernels of MaxDis_Fast are havoced: their result is not used for the first pick). HP_WHICH 0: MaxDis   1: MaxDis_Fast. */
#include "lsv.h"
#include "matrix.h"
#include "clustering.h"
void harness(void){
  matrix *m; NewMatrix(&m,HP_N,HP_C); double X[HP_N][HP_C];
  for(size_t i=0;i<HP_N;i++)for(size_t j=0;j<HP_C;j++){ X[i][j]=in_double(-1e3,1e3); m->data[i][j]=X[i][j]; }
  /* expected: arg-max of the squared distance to the column means */
  double d2[HP_N];
  for(size_t i=0;i<HP_N;i++){ d2[i]=0; for(size_t j=0;j<HP_C;j++){ double s=0; for(size_t k=0;k<HP_N;k++) s+=X[k][j]; double mu=s/(double)HP_N; d2[i]+=(mu-X[i][j])*(mu-X[i][j]); } }
  /* the driver splits on the expected index HP_EXPECT: it is THE farthest object (with ties any of the farthest is a correct answer: not constrained) */
  for(size_t i=0;i<HP_N;i++){ if(i!=HP_EXPECT) ASSUME(d2[HP_EXPECT]>d2[i]); }
  size_t best=HP_EXPECT;
  uivector *s; initUIVector(&s);
#if HP_WHICH==0
  MaxDis(m,1,0,s,1);
#else
  MaxDis_Fast(m,1,0,s,1);
#endif
  CHECK(s->size==1, "one object requested, one returned");
  CHECK(s->data[0]==best, "the first selected object is the one farthest from the centroid (unique farthest object)");
  WITNESS();
}
