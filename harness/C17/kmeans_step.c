/* C17: one k-means step (E-REAL): getLabels labels every object with a cluster in range whose centroid is a nearest one;
 * getCentroids returns, for every cluster that has members, the mean of the objects carrying its label (labels concrete: bits
 * of HP_LABELS, both clusters non-empty). HP_N objects x HP_C variables, 2 centroids. */
#include "lsv.h"
#include "matrix.h"
#include "clustering.h"
void getLabels(matrix *m, matrix *centroids, uivector *labels);
void getCentroids(matrix *m, uivector *cluster_labels, matrix **centroids);
#define LAB(i) (((HP_LABELS) >> (i)) & 1)
void harness(void){
  matrix *m,*c; NewMatrix(&m,HP_N,HP_C); NewMatrix(&c,2,HP_C);
  for(size_t i=0;i<HP_N;i++)for(size_t j=0;j<HP_C;j++) m->data[i][j]=in_double(-1e3,1e3);
  for(size_t k=0;k<2;k++)for(size_t j=0;j<HP_C;j++) c->data[k][j]=in_double(-1e3,1e3);
#if HP_WHICH==0
  uivector *l; NewUIVector(&l,HP_N);
  getLabels(m,c,l);
  for(size_t i=0;i<HP_N;i++){
    CHECK(l->data[i]<2, "label in range");
    double d[2]; for(size_t k=0;k<2;k++){ d[k]=0; for(size_t j=0;j<HP_C;j++){ double t=m->data[i][j]-c->data[k][j]; d[k]+=t*t; } }
    CHECK((l->data[i]==0 && d[0]<=d[1]) || (l->data[i]==1 && d[1]<=d[0]), "each object carries the label of a nearest centroid");
  }
#else
  uivector *l; NewUIVector(&l,HP_N); for(size_t i=0;i<HP_N;i++) l->data[i]=LAB(i);
  getCentroids(m,l,&c);
  CHECK(c->row==2 && c->col==HP_C, "centroid matrix keeps its shape");
  for(size_t k=0;k<2;k++){ size_t cnt=0; for(size_t i=0;i<HP_N;i++) if(LAB(i)==k) cnt++;
    for(size_t j=0;j<HP_C;j++){ double s=0; for(size_t i=HP_N;i>0;i--) if(LAB(i-1)==k) s+=m->data[i-1][j]; CHECK_EQ(c->data[k][j]*(double)cnt, s, "centroid = mean of the objects carrying its label"); } }
#endif
  WITNESS();
}
