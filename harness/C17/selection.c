/* C17: object selection returns the requested number of distinct, in-range indices and (max-min) each further element
 * maximises the minimum TABLED distance to those already chosen (E-BITS). Distances are HAVOCED: the distance kernels write an
 * arbitrary non-negative table (an over-approximation of every metric), so no float arithmetic remains in the selection logic.
 * HP_WHICH 0: MDC   1: MaxDis_Fast.   HP_N objects (1 column), HP_S selected, HP_T threads (workers synchronous). */
#include "lsv.h"
#include "matrix.h"
#include "clustering.h"
#include "metricspace.h"
#include "lsv_structs_clustering.h"
static double TAB[HP_N][HP_N];
static double nonneg(void){ double v=nondet_double(); __CPROVER_assume(v>=0.0 && v<=1e6); return v; }
#if HP_WHICH==0
/* MDC: the square distance matrix and the per-step distances to the picked object are arbitrary */
void CalculateDistance(matrix *m1, matrix *m2, matrix *distances, size_t nthreads, enum cmethod method){
  ResizeMatrix(distances, m2->row, m1->row); for(size_t i=0;i<distances->row;i++)for(size_t j=0;j<distances->col;j++) distances->data[i][j]=nonneg(); }
void *MDCWorker(void *arg_){ mdc_th_args *a=(mdc_th_args*)arg_; for(size_t k=a->from;k<a->to;k++){ a->tmprank->data[k][0]=nonneg(); a->tmprank->data[k][1]=(double)k; } return 0; }
#else
static void fill_condensed(matrix *m, dvector *d){ size_t n=m->row; DVectorResize(d,(n*n-n)/2);
  for(size_t i=0;i<n;i++)for(size_t j=i+1;j<n;j++){ double v=nonneg(); TAB[i][j]=v; TAB[j][i]=v; d->data[square_to_condensed_index(i,j,n)]=v; } }
void EuclideanDistanceCondensed(matrix *m, dvector *d, size_t nthreads){ fill_condensed(m,d); }
void ManhattanDistanceCondensed(matrix *m, dvector *d, size_t nthreads){ fill_condensed(m,d); }
void CosineDistanceCondensed(matrix *m, dvector *d, size_t nthreads){ fill_condensed(m,d); }
double __CPROVER_uninterpreted_lsvsqrtb(double);
double sqrt(double x){ return __CPROVER_uninterpreted_lsvsqrtb(x); }
#endif
void harness(void){
  matrix *m; NewMatrix(&m,HP_N,1); for(size_t i=0;i<HP_N;i++) m->data[i][0]=in_double(-1e3,1e3);
  uivector *s; initUIVector(&s);
#if HP_WHICH==0
  MDC(m,HP_S,HP_METRIC,s,HP_T);
#else
  MaxDis_Fast(m,HP_S,HP_METRIC,s,HP_T);
#endif
  CHECK(s->size==HP_S, "the requested number of objects is returned");
  for(size_t a=0;a<HP_S && a<s->size;a++){ CHECK(s->data[a]<HP_N, "selected index in range"); for(size_t b=a+1;b<HP_S && b<s->size;b++) CHECK(s->data[a]!=s->data[b], "selected indices are distinct"); }
#if HP_WHICH==1
  for(size_t a=1;a<HP_S && a<s->size;a++){
    /* min tabled distance of the chosen element to the earlier ones, and of every unchosen candidate */
    double best=-1; { size_t c=s->data[a]; double mn=TAB[c][s->data[0]]; for(size_t b=1;b<a;b++) if(TAB[c][s->data[b]]<mn) mn=TAB[c][s->data[b]]; best=mn; }
    for(size_t c=0;c<HP_N;c++){ int chosen=0; for(size_t b=0;b<a;b++) if(s->data[b]==c) chosen=1; if(chosen) continue;
      double mn=TAB[c][s->data[0]]; for(size_t b=1;b<a;b++) if(TAB[c][s->data[b]]<mn) mn=TAB[c][s->data[b]];
      CHECK(mn<=best, "each further element maximises the minimum distance to those already chosen"); }
  }
#endif
  WITNESS();
}
