/* C17: both max-min implementations return the same sequence (E-BITS). The data are HP_N objects with one variable whose value
 * is the object's own index (so that a distance kernel can tell which objects it is given); every pairwise distance is read from
 * ONE arbitrary symmetric non-negative table with pairwise distinct entries (an over-approximation of every metric on data
 * without ties), by the kernels of both implementations. */
#include "lsv.h"
#include "matrix.h"
#include "clustering.h"
#include "metricspace.h"
static double TAB[HP_N][HP_N];
void CalculateDistance(matrix *m1, matrix *m2, matrix *distances, size_t nthreads, enum cmethod method){
  ResizeMatrix(distances, m2->row, m1->row);
  for(size_t i=0;i<m2->row;i++)for(size_t j=0;j<m1->row;j++) distances->data[i][j]=TAB[(size_t)m2->data[i][0]][(size_t)m1->data[j][0]];
}
static void fill_condensed(matrix *m, dvector *d){ size_t n=m->row; DVectorResize(d,(n*n-n)/2);
  for(size_t i=0;i<n;i++)for(size_t j=i+1;j<n;j++) d->data[square_to_condensed_index(i,j,n)]=TAB[(size_t)m->data[i][0]][(size_t)m->data[j][0]]; }
void EuclideanDistanceCondensed(matrix *m, dvector *d, size_t nthreads){ fill_condensed(m,d); }
void ManhattanDistanceCondensed(matrix *m, dvector *d, size_t nthreads){ fill_condensed(m,d); }
void CosineDistanceCondensed(matrix *m, dvector *d, size_t nthreads){ fill_condensed(m,d); }
#ifndef LSV_REPLAY
double __CPROVER_uninterpreted_lsvsqrtb(double);
double sqrt(double x){ return __CPROVER_uninterpreted_lsvsqrtb(x); }
#endif
void harness(void){
  for(size_t i=0;i<HP_N;i++){ TAB[i][i]=0.0; for(size_t j=i+1;j<HP_N;j++){ double v=in_double(1e-3,1e6); TAB[i][j]=v; TAB[j][i]=v; } }
  for(size_t i=0;i<HP_N;i++)for(size_t j=i+1;j<HP_N;j++)for(size_t k=0;k<HP_N;k++)for(size_t l=k+1;l<HP_N;l++) if(i!=k||j!=l) ASSUME(TAB[i][j]!=TAB[k][l]);   /* no ties */
  matrix *m; NewMatrix(&m,HP_N,1); for(size_t i=0;i<HP_N;i++) m->data[i][0]=(double)i;
  uivector *a,*b; initUIVector(&a); initUIVector(&b);
  MaxDis(m,HP_S,HP_METRIC,a,1);
#if defined(HP_DBG) && HP_DBG==1
  WITNESS(); return;
#endif
  MaxDis_Fast(m,HP_S,HP_METRIC,b,1);
  CHECK(a->size==HP_S && b->size==HP_S, "both return the requested number of objects");
  for(size_t k=0;k<HP_S && k<a->size && k<b->size;k++) CHECK(a->data[k]==b->data[k], "MaxDis and MaxDis_Fast return the same sequence");
  WITNESS();
}
