/* lsv.h — harness conventions shared by the symbolic (CBMC) build and the native replay build.
 *
 * Symbolic build (default): inputs are nondeterministic values recorded in lsv_in_* arrays (so that a
 * solver model can be read back by input index), CHECK* are assertions, ASSUME is __CPROVER_assume.
 * Replay build (-DLSV_REPLAY): inputs are read, in the same order, from the file named by argv[1];
 * a failed ASSUME exits 77 (the recorded input does not satisfy the harness precondition natively),
 * a failed CHECK prints "REPRODUCED <label>" and exits 1; normal termination exits 0.
 * Every harness defines `void harness(void)`. */
#ifndef LSV_H
#define LSV_H
#include <stddef.h>
#include <stdint.h>

#define LSV_MAXIN 512

#ifndef LSV_REPLAY
/* ------------------------------------------------------------------ symbolic build */
double nondet_double(void);
size_t nondet_size_t(void);
int nondet_int(void);
unsigned nondet_unsigned(void);
_Bool nondet_bool(void);
/* every symbolic input is drawn through lsv_d()/lsv_i(); the k-th call is input k of its kind (the driver reads
 * them back from the CBMC trace / the SMT model by call order) */
double lsv_d(void); long long lsv_i(void);
#ifdef LSV_MAIN
double lsv_d(void){ double v = nondet_double(); return v; }
long long lsv_i(void){ long long v = (long long)nondet_size_t(); return v; }
#endif
#define ASSUME(c) __CPROVER_assume(c)
#ifdef LSV_SAFETY_ONLY
/* memory-safety run of a value harness: only CBMC's own pointer/bounds/overflow checks are goals */
#define CHECK(c, label) ((void)0)
#define CHECK_EQ(a, b, label) ((void)0)
#define CHECK_LE(a, b, label) ((void)0)
#define LEMMA_EQ(a, b, label) ((void)0)
#else
/* every goal goes through a named boolean (lsv_c_) so that the E-REAL slicer can tell the negated goal from assumptions */
#define CHECK(c, label) do{ _Bool lsv_c_ = (c); __CPROVER_assert(lsv_c_, label); }while(0)
/* equality of doubles: exact in the symbolic build (bit-exact in E-BITS apart from NaN==NaN, exact reals in E-REAL) */
#define CHECK_EQ(a, b, label) do{ double lsv_a_=(a), lsv_b_=(b); _Bool lsv_c_ = (lsv_a_==lsv_b_ || (lsv_a_!=lsv_a_ && lsv_b_!=lsv_b_)); __CPROVER_assert(lsv_c_, label); }while(0)
#define CHECK_LE(a, b, label) do{ _Bool lsv_c_ = ((a) <= (b)); __CPROVER_assert(lsv_c_, label); }while(0)
#endif
#ifndef LSV_SAFETY_ONLY
/* link of an assert-then-assume chain: proved as its own VC, then available as a hypothesis to the later assertions */
#define LEMMA_EQ(a, b, label) do{ double lsv_x_=(a), lsv_y_=(b); { _Bool lsv_c_ = (lsv_x_==lsv_y_); __CPROVER_assert(lsv_c_, label); } __CPROVER_assume(lsv_x_==lsv_y_); }while(0)
#endif
/* reachability witness: expected to FAIL (the end of the harness is reachable under the assumptions) */
#define WITNESS() __CPROVER_assert(0, "LSV_WITNESS end of harness reachable")
#define LSV_SYMBOLIC 1
#else
/* ------------------------------------------------------------------ native replay build */
#include <stdio.h>
#include <stdlib.h>
#include <math.h>
extern FILE *lsv_rf;
double lsv_d(void);
long long lsv_i(void);
extern double lsv_tol; extern int lsv_absent;
#define ASSUME(c) do{ if(!(c)){ fprintf(stderr, "ASSUME-FAILED %s:%d %s\n", __FILE__, __LINE__, #c); exit(77); } }while(0)
#define CHECK(c, label) do{ if(!(c)){ printf("REPRODUCED %s (%s:%d)\n", label, __FILE__, __LINE__); fflush(stdout); exit(1); } }while(0)
#define CHECK_EQ(a, b, label) do{ double lsv_a_=(a), lsv_b_=(b); double lsv_s_=fmax(1.0, fmax(fabs(lsv_a_), fabs(lsv_b_))); \
  if(!((lsv_a_!=lsv_a_ && lsv_b_!=lsv_b_) || fabs(lsv_a_-lsv_b_) <= lsv_tol*lsv_s_)){ printf("REPRODUCED %s: %.17g vs %.17g (%s:%d)\n", label, lsv_a_, lsv_b_, __FILE__, __LINE__); fflush(stdout); exit(1);} }while(0)
#define CHECK_LE(a, b, label) do{ double lsv_a_=(a), lsv_b_=(b); double lsv_s_=fmax(1.0, fmax(fabs(lsv_a_), fabs(lsv_b_))); \
  if(!(lsv_a_ <= lsv_b_ + lsv_tol*lsv_s_)){ printf("REPRODUCED %s: %.17g > %.17g (%s:%d)\n", label, lsv_a_, lsv_b_, __FILE__, __LINE__); fflush(stdout); exit(1);} }while(0)
#define WITNESS() ((void)0)
#define LEMMA_EQ(a, b, label) CHECK_EQ(a, b, label)
#define __CPROVER_w_ok(p, n) 1
#define __CPROVER_r_ok(p, n) 1
#define __CPROVER_same_object(a, b) ((const void*)(a)==(const void*)(b))
#define __CPROVER_assume(c) ASSUME(c)
#define __CPROVER_assert(c, l) CHECK(c, l)
#ifdef LSV_MAIN
FILE *lsv_rf; double lsv_tol = 1e-6;
static double lsv_qd[LSV_MAXIN]; static long long lsv_qi[LSV_MAXIN]; static char lsv_qa[LSV_MAXIN], lsv_qb[LSV_MAXIN]; static unsigned lsv_nqd, lsv_nqi, lsv_pd, lsv_pi;
static void lsv_load(void){ char tag[8]; char buf[128];
  while(fscanf(lsv_rf, "%7s %127s", tag, buf)==2){
    if(tag[0]=='d' && lsv_nqd<LSV_MAXIN){ double d; if(buf[0]=='b'){ uint64_t u=0; for(char *p=buf+1;*p;p++) u=(u<<1)|(uint64_t)(*p=='1'); __builtin_memcpy(&d,&u,8); } else if(buf[0]=='?'){ d=0; lsv_qa[lsv_nqd]=1; } else d=strtod(buf,NULL); lsv_qd[lsv_nqd++]=d; }
    else if(tag[0]=='i' && lsv_nqi<LSV_MAXIN){ if(buf[0]=='?'){ lsv_qb[lsv_nqi]=1; lsv_qi[lsv_nqi++]=0; } else lsv_qi[lsv_nqi++]=strtoll(buf,NULL,10); }
    else if(tag[0]=='#'){ int c; while((c=fgetc(lsv_rf))!=EOF && c!='\n'); }
  } }
/* inputs the solver left unconstrained (absent from the model) default to 0 */
int lsv_absent;
double lsv_d(void){ lsv_absent = !(lsv_pd<lsv_nqd) || lsv_qa[lsv_pd]; return lsv_pd<lsv_nqd ? lsv_qd[lsv_pd++] : 0.0; }
long long lsv_i(void){ lsv_absent = !(lsv_pi<lsv_nqi) || lsv_qb[lsv_pi]; return lsv_pi<lsv_nqi ? lsv_qi[lsv_pi++] : 0; }
void harness(void);
int main(int argc, char **argv){ if(argc<2){ fprintf(stderr,"usage: %s inputs.txt [tol]\n", argv[0]); return 2; } lsv_rf=fopen(argv[1],"r"); if(!lsv_rf){ perror("open"); return 2; }
  if(argc>2) lsv_tol=strtod(argv[2],NULL); lsv_load(); harness(); printf("NOT-REPRODUCED (harness completed, all checks passed natively)\n"); return 0; }
#endif
#endif

/* input helpers (both builds). In the replay build an input the solver left out of its model ("?": it is outside
 * the cone of influence of the violated assertion) takes the value nearest to 0 inside its range. */
#ifdef LSV_REPLAY
#define LSV_FIX(v, lo, hi) do{ if(lsv_absent){ if((lo) > 0) v = (lo); else if((hi) < 0) v = (hi); else v = 0; } }while(0)
#else
#define LSV_FIX(v, lo, hi) ((void)0)
#endif
static inline double in_double(double lo, double hi){ double v = lsv_d(); LSV_FIX(v, lo, hi); ASSUME(v >= lo && v <= hi); return v; }
static inline double in_any_double(void){ return lsv_d(); }
static inline size_t in_size(size_t lo, size_t hi){ long long v = lsv_i(); LSV_FIX(v, (long long)lo, (long long)hi); ASSUME(v >= (long long)lo && v <= (long long)hi); return (size_t)v; }
static inline long long in_int(long long lo, long long hi){ long long v = lsv_i(); LSV_FIX(v, lo, hi); ASSUME(v >= lo && v <= hi); return v; }

#endif
