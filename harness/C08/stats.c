/* C08: LDAMulticlassStatistics on true and predicted labels numbered from 0: for perfect predictions every class that
 * occurs gets AUC = 1 (concrete label vector HP_LABELS, E-REAL through the real ROC/PrecisionRecall code). */
#include "lsv.h"
#include "lda.h"
static const int lab[] = { HP_LABELS };
void harness(void){
  matrix *yt,*yp; NewMatrix(&yt,HP_N,1); NewMatrix(&yp,HP_N,1);
  for(size_t i=0;i<HP_N;i++){ yt->data[i][0]=(double)lab[i]; yp->data[i][0]=(double)lab[i]; }
  dvector *ra,*pa; initDVector(&ra); initDVector(&pa);
  LDAMulticlassStatistics(yt,yp,NULL,ra,NULL,pa);
  size_t expect = (HP_K==2) ? 1 : HP_K;
  CHECK(ra->size==expect && pa->size==expect, "one ROC/PR summary per class (one for the binary case)");
  for(size_t k=0;k<expect;k++) CHECK_EQ(ra->data[k], 1.0, "perfect predictions: AUC = 1 for every class");
  WITNESS();
}
