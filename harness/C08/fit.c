/* C08: LDA() bookkeeping for a CONCRETE label vector (digits of HP_LABELS in base 4, object i has label digit i, labels
 * start at HP_S) and HP_F features with symbolic contents (E-REAL): class priors = class frequencies (sum 1), class means =
 * per-class averages, nclass, class_start; HP_WHICH==1: discriminant formula of LDAPrediction on the fitted-model fields. */
#include "lsv.h"
#include "lda.h"
static const int lab[] = { HP_LABELS };
double __CPROVER_uninterpreted_lsvlog(double);
double log(double x){ return __CPROVER_uninterpreted_lsvlog(x); }
double exp(double x){ return 1.0; }
void harness(void){
#if HP_WHICH==0
  matrix *x,*y; NewMatrix(&x,HP_N,HP_F); NewMatrix(&y,HP_N,1);
  for(size_t i=0;i<HP_N;i++){ for(size_t j=0;j<HP_F;j++) x->data[i][j]=in_double(-1e3,1e3); y->data[i][0]=(double)lab[i]; }
  size_t cnt[4]={0,0,0,0}; double sum[4][HP_F]; for(int k=0;k<4;k++)for(size_t j=0;j<HP_F;j++) sum[k][j]=0;
  for(size_t i=0;i<HP_N;i++){ cnt[lab[i]-HP_S]++; for(size_t j=0;j<HP_F;j++) sum[lab[i]-HP_S][j]+=x->data[i][j]; }
  for(int k=0;k<HP_K;k++)for(size_t j=0;j<HP_F;j++) ASSUME(sum[k][j]<=-1e-6 || sum[k][j]>=1e-6 || sum[k][j]==0);   /* MatrixColAverage tolerance */
  LDAMODEL *l; NewLDAModel(&l);
  LDA(x,y,l);
  CHECK(l->nclass==HP_K && l->class_start==HP_S, "number of classes and first label");
  CHECK(l->pprob->size==HP_K && l->mu->row==HP_K && l->mu->col==HP_F, "one prior and one mean row per class");
  double ps=0;
  for(int k=0;k<HP_K;k++){ CHECK_EQ(l->pprob->data[k]*HP_N, (double)cnt[k], "class prior = class frequency"); ps+=l->pprob->data[k];
    for(size_t j=0;j<HP_F;j++) CHECK_EQ(l->mu->data[k][j]*(double)cnt[k], sum[k][j], "class mean = per-class average"); }
  CHECK_EQ(ps, 1.0, "priors sum to 1");
#else
  LDAMODEL *l; NewLDAModel(&l); l->nclass=HP_K; l->class_start=HP_S;
  ResizeMatrix(l->inv_cov,HP_F,HP_F); ResizeMatrix(l->mu,HP_K,HP_F); ResizeMatrix(l->evect,HP_F,HP_F); ResizeMatrix(l->fmean,HP_K,HP_F); ResizeMatrix(l->fsdev,HP_K,HP_F);
  for(size_t i=0;i<HP_F;i++)for(size_t j=0;j<HP_F;j++){ l->inv_cov->data[i][j]=in_double(-1e3,1e3); l->evect->data[i][j]=in_double(-1e3,1e3); }
  for(size_t k=0;k<HP_K;k++){ for(size_t j=0;j<HP_F;j++){ l->mu->data[k][j]=in_double(-1e3,1e3); l->fmean->data[k][j]=in_double(-1e3,1e3); l->fsdev->data[k][j]=in_double(1e-3,1e3); } DVectorAppend(l->pprob,in_double(1e-6,1.0)); }
  matrix *x; NewMatrix(&x,HP_N,HP_F); for(size_t i=0;i<HP_N;i++)for(size_t j=0;j<HP_F;j++) x->data[i][j]=in_double(-1e3,1e3);
  matrix *pf,*pr,*mn,*pred; initMatrix(&pf); initMatrix(&pr); initMatrix(&mn); initMatrix(&pred);
  LDAPrediction(x,l,pf,pr,mn,pred);
  for(size_t i=0;i<HP_N;i++)for(size_t k=0;k<HP_K;k++){
    double a=0,b=0; for(size_t r=HP_F;r>0;r--)for(size_t c=HP_F;c>0;c--){ a+=l->mu->data[k][r-1]*l->inv_cov->data[r-1][c-1]*x->data[i][c-1]; b+=l->mu->data[k][r-1]*l->inv_cov->data[r-1][c-1]*l->mu->data[k][c-1]; }
    CHECK_EQ(pr->data[i][k], a-0.5*b+__CPROVER_uninterpreted_lsvlog(l->pprob->data[k]), "discriminant f_k(x) = mu_k' C x - 1/2 mu_k' C mu_k + ln(prior_k)");
  }
#endif
  WITNESS();
}
