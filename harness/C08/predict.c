/* C08: LDAPrediction on a directly constructed model (nclass HP_K, features HP_F, objects HP_N, labels starting at
 * HP_S): every numeric field symbolic, dot-product kernels havoced (index obligation). Decides: memory safety,
 * prediction = arg-max of the RETURNED discriminant row + class_start, predicted label occurs among the training labels. */
#include "lsv.h"
#include "lda.h"
static void fill(matrix *m){ for(size_t i=0;i<m->row;i++)for(size_t j=0;j<m->col;j++) m->data[i][j]=in_double(-1e3,1e3); }
void harness(void){
  LDAMODEL *l; NewLDAModel(&l);
  l->nclass=HP_K; l->class_start=HP_S;
  ResizeMatrix(l->inv_cov,HP_F,HP_F); fill(l->inv_cov);
  ResizeMatrix(l->mu,HP_K,HP_F); fill(l->mu);
  ResizeMatrix(l->evect,HP_F,HP_F); fill(l->evect);
  ResizeMatrix(l->fmean,HP_K,HP_F); fill(l->fmean);
  ResizeMatrix(l->fsdev,HP_K,HP_F); fill(l->fsdev);
  for(size_t k=0;k<HP_K;k++) DVectorAppend(l->pprob, in_double(1e-6,1.0));
  matrix *x; NewMatrix(&x,HP_N,HP_F); fill(x);
  matrix *pf,*pr,*mn,*pred; initMatrix(&pf); initMatrix(&pr); initMatrix(&mn); initMatrix(&pred);
  LDAPrediction(x,l,pf,pr,mn,pred);
  CHECK(pred->row==HP_N && pred->col==1 && pr->row==HP_N && pr->col==HP_K, "one prediction and one discriminant row per object");
  for(size_t i=0;i<HP_N;i++){
    for(size_t j=0;j<HP_K;j++) ASSUME(pr->data[i][j]==pr->data[i][j]);      /* discriminant scores are numbers (non-singular covariance) */
    double lab=pred->data[i][0];
    CHECK(lab>=HP_S && lab<HP_S+HP_K, "predicted label occurs among the training labels");
    size_t a=(size_t)(lab-HP_S);
    CHECK((double)a==lab-HP_S, "predicted label is integral");
    if(a<HP_K) for(size_t j=0;j<HP_K;j++) CHECK(pr->data[i][j]<=pr->data[i][a], "prediction maximises the stored discriminant score");
  }
  WITNESS();
}
