/* C11: MatrixDotProduct (dispatching entry and both variants) equals the textbook sum, written here in the
 * opposite association order (k descending), for a concrete shape HP_M x HP_K x HP_P with symbolic contents. */
#include "lsv.h"
#include "matrix.h"
#ifndef HP_FN
#define HP_FN MatrixDotProduct
#endif
void harness(void){
  matrix *a, *b, *c; NewMatrix(&a, HP_M, HP_K); NewMatrix(&b, HP_K, HP_P); NewMatrix(&c, HP_M, HP_P);
  for(size_t i=0;i<HP_M;i++)for(size_t k=0;k<HP_K;k++) a->data[i][k]=in_double(-1e6,1e6);
  for(size_t k=0;k<HP_K;k++)for(size_t j=0;j<HP_P;j++) b->data[k][j]=in_double(-1e6,1e6);
  HP_FN(a, b, c);
  CHECK(c->row==HP_M && c->col==HP_P, "result shape unchanged");
  for(size_t i=0;i<HP_M;i++)for(size_t j=0;j<HP_P;j++){
    double s=0; for(size_t k=HP_K;k>0;k--) s+=a->data[i][k-1]*b->data[k-1][j];
    CHECK_EQ(c->data[i][j], s, "c[i][j] = sum_k a[i][k]*b[k][j]");
  }
  WITNESS();
}
