/* C11: dense kernels equal their textbook definitions for a concrete shape (HP_M rows, HP_K inner, HP_P cols)
 * with symbolic contents.  The oracle sums are written in the OPPOSITE association order to the library's.
 * HP_KERNEL selects the kernel. No-missing-hit precondition (driver option) unless the kernel says otherwise. */
#include "lsv.h"
#include "matrix.h"
#include "vector.h"
#include "tensor.h"
#include "numeric.h"
#include "memwrapper.h"

#define MATVEC 1
#define VECMAT 2
#define OUTER 3
#define VTV 4
#define TRANSPOSE 5
#define TRACE 6
#define NORM 7
#define COVARIANCE 8
#define COLAVG 9
#define ROWAVG 10
#define COLVAR 11
#define COLSDEV 12
#define COLRMS 13
#define LAW_TRANSPOSE_PRODUCT 14
#define LAW_DISTRIBUTIVE 15
#define TENSOR_TTV 16
#define TENSOR_VT 17
#define TENSOR_TM 18
#define TENSOR_TM2 19
#define MT_MATVEC 20
#define MT_VECMAT 21
#define DVDOT 22
#define MINMAX 23

#define RNG 1e6
static matrix *symmatrix(size_t r, size_t c){ matrix *m; NewMatrix(&m, r, c); for(size_t i=0;i<r;i++)for(size_t j=0;j<c;j++) m->data[i][j]=in_double(-RNG,RNG); return m; }
static dvector *symvector(size_t n){ dvector *v; NewDVector(&v, n); for(size_t i=0;i<n;i++) v->data[i]=in_double(-RNG,RNG); return v; }

void harness(void){
#ifdef HP_T
  lsci_verif_nproc = HP_T;
#endif
#if HP_KERNEL==MATVEC || HP_KERNEL==MT_MATVEC
  matrix *m=symmatrix(HP_M,HP_K); dvector *v=symvector(HP_K); dvector *p; NewDVector(&p,HP_M);
#if HP_KERNEL==MATVEC
  MatrixDVectorDotProduct(m,v,p);
#else
  MT_MatrixDVectorDotProduct(m,v,p);
#endif
  CHECK(p->size==HP_M, "result size");
  for(size_t i=0;i<HP_M;i++){ double s=0; for(size_t k=HP_K;k>0;k--) s+=m->data[i][k-1]*v->data[k-1]; CHECK_EQ(p->data[i], s, "p[i] = sum_j m[i][j] v[j]"); }
#elif HP_KERNEL==VECMAT || HP_KERNEL==MT_VECMAT
  matrix *m=symmatrix(HP_K,HP_P); dvector *v=symvector(HP_K); dvector *p; NewDVector(&p,HP_P);
#if HP_KERNEL==VECMAT
  DVectorMatrixDotProduct(m,v,p);
#else
  MT_DVectorMatrixDotProduct(m,v,p);
#endif
  for(size_t j=0;j<HP_P;j++){ double s=0; for(size_t k=HP_K;k>0;k--) s+=v->data[k-1]*m->data[k-1][j]; CHECK_EQ(p->data[j], s, "p[j] = sum_i v[i] m[i][j]"); }
#elif HP_KERNEL==OUTER
  dvector *a=symvector(HP_M), *b=symvector(HP_P); matrix *m; NewMatrix(&m,HP_M,HP_P);
  for(size_t i=0;i<HP_M;i++)for(size_t j=0;j<HP_P;j++) m->data[i][j]=in_double(-RNG,RNG);   /* stale content must be overwritten */
  RowColOuterProduct(a,b,m);
  for(size_t i=0;i<HP_M;i++)for(size_t j=0;j<HP_P;j++) CHECK_EQ(m->data[i][j], a->data[i]*b->data[j], "m[i][j] = a[i] b[j]");
#elif HP_KERNEL==VTV
  /* MISSING entries are allowed here: an entry is MISSING-coded iff its row factor or its column factor is */
  dvector *a, *b; NewDVector(&a,HP_M); NewDVector(&b,HP_P);
  for(size_t i=0;i<HP_M;i++){ double x=in_double(-1e3,1e3); size_t mi=in_size(0,1); a->data[i] = mi ? (double)MISSING : x; }
  for(size_t j=0;j<HP_P;j++){ double x=in_double(-1e3,1e3); size_t mi=in_size(0,1); b->data[j] = mi ? (double)MISSING : x; }
  matrix *m; initMatrix(&m);
  DVectorTrasposedDVectorDotProduct(a,b,m);
  CHECK(m->row==HP_M && m->col==HP_P, "result is size(v1) x size(v2)");
  for(size_t i=0;i<HP_M;i++)for(size_t j=0;j<HP_P;j++){
    if(a->data[i]==(double)MISSING || b->data[j]==(double)MISSING) CHECK_EQ(m->data[i][j], (double)MISSING, "m[i][j] MISSING iff v1[i] or v2[j] is MISSING");
    else CHECK_EQ(m->data[i][j], a->data[i]*b->data[j], "m[i][j] = v1[i] v2[j]");
  }
#elif HP_KERNEL==TRANSPOSE
  matrix *m=symmatrix(HP_M,HP_P); matrix *r, *rr; NewMatrix(&r,HP_P,HP_M); NewMatrix(&rr,HP_M,HP_P);
  MatrixTranspose(m,r);
  for(size_t i=0;i<HP_M;i++)for(size_t j=0;j<HP_P;j++) CHECK_EQ(r->data[j][i], m->data[i][j], "r[j][i] = m[i][j]");
  MatrixTranspose(r,rr);
  for(size_t i=0;i<HP_M;i++)for(size_t j=0;j<HP_P;j++) CHECK_EQ(rr->data[i][j], m->data[i][j], "transpose is an involution");
#elif HP_KERNEL==TRACE
  matrix *m=symmatrix(HP_M,HP_M); double s=0; for(size_t i=HP_M;i>0;i--) s+=m->data[i-1][i-1];
  CHECK_EQ(MatrixTrace(m), s, "trace = sum of diagonal");
#elif HP_KERNEL==NORM
  matrix *m=symmatrix(HP_M,HP_P); double s=0; for(size_t i=HP_M;i>0;i--)for(size_t j=0;j<HP_P;j++) s+=m->data[i-1][j]*m->data[i-1][j];
  double n=Matrixnorm(m);
  CHECK(n>=0, "norm non-negative"); CHECK_EQ(n*n, s, "norm^2 = sum of squares");
  { dvector *v=symvector(HP_M); double q=0; for(size_t i=HP_M;i>0;i--) q+=v->data[i-1]*v->data[i-1]; double dn=DvectorModule(v);
    CHECK(dn>=0, "vector norm non-negative"); CHECK_EQ(dn*dn, q, "vector norm^2 = sum of squares"); }
#elif HP_KERNEL==COVARIANCE
  /* rows >= 2; covariance = Xc'Xc/(n-1), hence symmetric and v'Cv = |Xc v|^2/(n-1) >= 0 (PSD) */
  matrix *m=symmatrix(HP_M,HP_P); matrix *c; initMatrix(&c);
  double mean[HP_P+1]; for(size_t j=0;j<HP_P;j++){ double s=0; for(size_t i=HP_M;i>0;i--) s+=m->data[i-1][j]; mean[j]=s/HP_M; ASSUME(s<=-1e-6 || s>=1e-6 || s==0); }
  MatrixCovariance(m,c);
  CHECK(c->row==HP_P && c->col==HP_P, "covariance is col x col");
  for(size_t a=0;a<HP_P;a++)for(size_t b=0;b<HP_P;b++){
    double s=0; for(size_t i=HP_M;i>0;i--) s+=(m->data[i-1][b]-mean[b])*(m->data[i-1][a]-mean[a]);
    CHECK_EQ(c->data[a][b]*(HP_M-1), s, "cov[a][b] (n-1) = sum (x_a - mean_a)(x_b - mean_b)");
    CHECK_EQ(c->data[a][b], c->data[b][a], "covariance symmetric");
  }
#elif HP_KERNEL==COLAVG
  matrix *m=symmatrix(HP_M,HP_P); dvector *r; initDVector(&r); MatrixColAverage(m,r);
  CHECK(r->size==HP_P, "one average per column");
  for(size_t j=0;j<HP_P;j++){ double s=0; for(size_t i=HP_M;i>0;i--) s+=m->data[i-1][j];
    /* documented tolerance: a column sum within 1e-6 of zero is reported as average 0 */
    CHECK_LE(r->data[j]*HP_M - s, 1e-6, "avg*n - sum <= 1e-6"); CHECK_LE(s - r->data[j]*HP_M, 1e-6, "sum - avg*n <= 1e-6");
    if(s>=1e-6 || s<=-1e-6) CHECK_EQ(r->data[j]*HP_M, s, "avg*n = sum"); }
#elif HP_KERNEL==ROWAVG
  matrix *m=symmatrix(HP_M,HP_P); dvector *r; initDVector(&r); MatrixRowAverage(m,r);
  CHECK(r->size==HP_M, "one average per row");
  for(size_t i=0;i<HP_M;i++){ double s=0; for(size_t j=HP_P;j>0;j--) s+=m->data[i][j-1]; CHECK_EQ(r->data[i]*HP_P, s, "rowavg*n = sum"); }
#elif HP_KERNEL==COLVAR || HP_KERNEL==COLSDEV || HP_KERNEL==COLRMS
  matrix *m=symmatrix(HP_M,HP_P); dvector *r; initDVector(&r);
#if HP_KERNEL==COLVAR
  MatrixColVar(m,r);
#elif HP_KERNEL==COLSDEV
  MatrixColSDEV(m,r);
#else
  MatrixColRMS(m,r);
#endif
  CHECK(r->size==HP_P, "one statistic per column");
  for(size_t j=0;j<HP_P;j++){ double s=0; for(size_t i=HP_M;i>0;i--) s+=m->data[i-1][j]; double mu=s/HP_M;
    double q=0; for(size_t i=HP_M;i>0;i--) q+=(m->data[i-1][j]-mu)*(m->data[i-1][j]-mu);
    double q2=0; for(size_t i=HP_M;i>0;i--) q2+=m->data[i-1][j]*m->data[i-1][j];
#if HP_KERNEL==COLVAR
    CHECK_EQ(r->data[j]*(HP_M-1), q, "var (n-1) = sum (x-mean)^2");
#elif HP_KERNEL==COLSDEV
    CHECK(r->data[j]>=0, "sdev >= 0"); CHECK_EQ(r->data[j]*r->data[j]*(HP_M-1), q, "sdev^2 (n-1) = sum (x-mean)^2");
#else
    CHECK(r->data[j]>=0, "rms >= 0"); CHECK_EQ(r->data[j]*r->data[j]*HP_M, q2, "rms^2 n = sum x^2");
#endif
  }
#elif HP_KERNEL==LAW_TRANSPOSE_PRODUCT
  /* (AB)' = B'A' computed through the library's own product and transpose */
  matrix *a=symmatrix(HP_M,HP_K), *b=symmatrix(HP_K,HP_P); matrix *ab,*abt,*at,*bt,*btat;
  NewMatrix(&ab,HP_M,HP_P); NewMatrix(&abt,HP_P,HP_M); NewMatrix(&at,HP_K,HP_M); NewMatrix(&bt,HP_P,HP_K); NewMatrix(&btat,HP_P,HP_M);
  MatrixDotProduct(a,b,ab); MatrixTranspose(ab,abt); MatrixTranspose(a,at); MatrixTranspose(b,bt); MatrixDotProduct(bt,at,btat);
  for(size_t i=0;i<HP_P;i++)for(size_t j=0;j<HP_M;j++) CHECK_EQ(abt->data[i][j], btat->data[i][j], "(AB)' = B'A'");
#elif HP_KERNEL==LAW_DISTRIBUTIVE
  matrix *a=symmatrix(HP_M,HP_K), *b=symmatrix(HP_K,HP_P), *c=symmatrix(HP_K,HP_P); matrix *bc,*abc,*ab,*ac;
  NewMatrix(&bc,HP_K,HP_P); NewMatrix(&abc,HP_M,HP_P); NewMatrix(&ab,HP_M,HP_P); NewMatrix(&ac,HP_M,HP_P);
  for(size_t i=0;i<HP_K;i++)for(size_t j=0;j<HP_P;j++) bc->data[i][j]=b->data[i][j]+c->data[i][j];
  MatrixDotProduct(a,bc,abc); MatrixDotProduct(a,b,ab); MatrixDotProduct(a,c,ac);
  for(size_t i=0;i<HP_M;i++)for(size_t j=0;j<HP_P;j++) CHECK_EQ(abc->data[i][j], ab->data[i][j]+ac->data[i][j], "A(B+C) = AB + AC");
#elif HP_KERNEL==TENSOR_TTV || HP_KERNEL==TENSOR_VT || HP_KERNEL==TENSOR_TM || HP_KERNEL==TENSOR_TM2
  /* tensor of HP_O slices, each HP_M x HP_P */
  tensor *t; initTensor(&t);
  for(size_t k=0;k<HP_O;k++){ AddTensorMatrix(t,HP_M,HP_P); for(size_t i=0;i<HP_M;i++)for(size_t j=0;j<HP_P;j++) t->m[k]->data[i][j]=in_double(-RNG,RNG); }
#if HP_KERNEL==TENSOR_TTV
  dvector *v=symvector(HP_P); matrix *p; NewMatrix(&p,HP_O,HP_M);
  TransposedTensorDVectorProduct(t,v,p);
  for(size_t k=0;k<HP_O;k++)for(size_t i=0;i<HP_M;i++){ double s=0; for(size_t j=HP_P;j>0;j--) s+=t->m[k]->data[i][j-1]*v->data[j-1]; CHECK_EQ(p->data[k][i], s, "p[k][i] = sum_j t[k][i][j] v[j]"); }
#elif HP_KERNEL==TENSOR_VT
  dvector *v=symvector(HP_M); matrix *p; NewMatrix(&p,HP_P,HP_O);
  DvectorTensorDotProduct(t,v,p);
  for(size_t k=0;k<HP_O;k++)for(size_t j=0;j<HP_P;j++){ double s=0; for(size_t i=HP_M;i>0;i--) s+=v->data[i-1]*t->m[k]->data[i-1][j]; CHECK_EQ(p->data[j][k], s, "m[j][k] = sum_i v[i] t[k][i][j]"); }
#elif HP_KERNEL==TENSOR_TM
  matrix *m=symmatrix(HP_P,HP_O); dvector *v; NewDVector(&v,HP_M);
  TensorMatrixDotProduct(t,m,v);
  for(size_t i=0;i<HP_M;i++){ double s=0; for(size_t k=HP_O;k>0;k--)for(size_t j=HP_P;j>0;j--) s+=t->m[k-1]->data[i][j-1]*m->data[j-1][k-1]; CHECK_EQ(v->data[i], s, "v[i] = sum_k sum_j t[k][i][j] m[j][k]"); }
#else
  matrix *m=symmatrix(HP_O,HP_P); dvector *v; NewDVector(&v,HP_M);
  TensorMatrixDotProduct2(t,m,v);
  for(size_t i=0;i<HP_M;i++){ double s=0; for(size_t k=HP_O;k>0;k--)for(size_t j=HP_P;j>0;j--) s+=t->m[k-1]->data[i][j-1]*m->data[k-1][j-1]; CHECK_EQ(v->data[i], s, "v[i] = sum_j sum_k t[k][i][j] m[k][j]"); }
#endif
#elif HP_KERNEL==DVDOT
  dvector *a=symvector(HP_K), *b=symvector(HP_K); double s=0; for(size_t k=HP_K;k>0;k--) s+=a->data[k-1]*b->data[k-1];
  CHECK_EQ(DVectorDVectorDotProd(a,b), s, "dot = sum a[i] b[i]");
#elif HP_KERNEL==MINMAX
  matrix *m=symmatrix(HP_M,HP_P); size_t c=in_size(0,HP_P-1); double mn, mx; MatrixColumnMinMax(m,c,&mn,&mx);
  int hitmin=0, hitmax=0;
  for(size_t i=0;i<HP_M;i++){ CHECK(mn<=m->data[i][c] && m->data[i][c]<=mx, "min <= every entry <= max"); if(m->data[i][c]==mn) hitmin=1; if(m->data[i][c]==mx) hitmax=1; }
  CHECK(hitmin && hitmax, "min and max are attained");
#else
#error unknown HP_KERNEL
#endif
  WITNESS();
}
