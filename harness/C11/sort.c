/* C11: MatrixSort / MatrixReverseSort return a permutation of the rows ordered by the key column (E-BITS,
 * comparison-only float logic; NaN keys excluded). Column HP_P is a ghost tag column carrying the row id. */
#include "lsv.h"
#include "matrix.h"
#define MM (HP_M > 0 ? HP_M : 1)      /* HP_M 0: a matrix without rows must be returned unchanged (and the call must return) */
void harness(void){
  matrix *m; NewMatrix(&m, HP_M, HP_P+1); double orig[MM][HP_P+1];
  for(size_t i=0;i<HP_M;i++){ for(size_t j=0;j<HP_P;j++){ double v=in_any_double(); ASSUME(v==v); m->data[i][j]=v; orig[i][j]=v; } m->data[i][HP_P]=(double)i; orig[i][HP_P]=(double)i; }
  size_t key=in_size(0,HP_P-1);
#if HP_REVERSE
  MatrixReverseSort(m, key);
#else
  MatrixSort(m, key);
#endif
  CHECK(m->row==HP_M && m->col==HP_P+1, "shape unchanged");
  int seen[MM]; for(size_t i=0;i<HP_M;i++) seen[i]=0;
  for(size_t i=0;i<HP_M;i++){
    double tag=m->data[i][HP_P]; CHECK(tag>=0 && tag<HP_M, "tag in range"); size_t o=(size_t)tag; CHECK((double)o==tag, "tag integral");
    CHECK(!seen[o], "each original row appears once"); seen[o]=1;
    for(size_t j=0;j<HP_P;j++) CHECK(m->data[i][j]==orig[o][j], "row content moved as a whole");
#if HP_REVERSE
    if(i>0) CHECK(m->data[i-1][key]>=m->data[i][key], "descending by key");
#else
    if(i>0) CHECK(m->data[i-1][key]<=m->data[i][key], "ascending by key");
#endif
  }
  WITNESS();
}
