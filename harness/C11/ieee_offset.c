/* C11 (E-BITS, IEEE-exact): covariance / column variance on data riding on a large common offset (x = HP_OFFSET + k/1024,
 * k symbolic in 0..15 thousandths): the diagonal is non-negative and every entry agrees with the centred two-pass definition to 1e-9 -
 * the floating-point side of "equals its textbook definition (to rounding)" and "positive semi-definite" that exact-arithmetic
 * reasoning cannot see (a hoisted-centring formula sum x*y - n*mean_x*mean_y loses every digit here). */
#include "lsv.h"
#include "matrix.h"
void harness(void){
  matrix *m; NewMatrix(&m,HP_M,HP_P);
  for(size_t i=0;i<HP_M;i++)for(size_t j=0;j<HP_P;j++){ size_t k=in_size(0,15); m->data[i][j]=(double)(HP_OFFSET)+(double)k/1000.0;    /* thousandths: not dyadic, so squares and sums do round */ }
  matrix *c; initMatrix(&c);
  MatrixCovariance(m,c);
  for(size_t a=0;a<HP_P;a++){
    CHECK(c->data[a][a]>=0.0, "covariance diagonal (a variance) is non-negative in IEEE arithmetic");
#if HP_FULL
    for(size_t b=0;b<HP_P;b++){
      double ma=0, mb=0; for(size_t i=0;i<HP_M;i++){ ma+=m->data[i][a]; mb+=m->data[i][b]; } ma/=HP_M; mb/=HP_M;
      double s=0; for(size_t i=HP_M;i>0;i--) s+=(m->data[i-1][a]-ma)*(m->data[i-1][b]-mb);
      double d=c->data[a][b]-s/(HP_M-1); CHECK(d<=1e-9 && d>=-1e-9, "covariance entry agrees with the centred definition to 1e-9 on offset data");
    }
#endif
  }
  { dvector *v; initDVector(&v); MatrixColVar(m,v); for(size_t a=0;a<HP_P;a++) CHECK(v->data[a]>=0.0, "column variance is non-negative in IEEE arithmetic"); }
#if HP_FULL
  { dvector *v; initDVector(&v); MatrixColVar(m,v);
    for(size_t a=0;a<HP_P;a++){ double mn=m->data[0][a], mx=mn; for(size_t i=1;i<HP_M;i++){ if(m->data[i][a]<mn) mn=m->data[i][a]; if(m->data[i][a]>mx) mx=m->data[i][a]; }
      CHECK(v->data[a]>=0.0 && v->data[a]<=(mx-mn)*(mx-mn)*1.0000001+1e-12, "column variance lies between 0 and the squared range (+1e-12 for the rounding of the mean) in IEEE arithmetic");
      CHECK(c->data[a][a]<=(mx-mn)*(mx-mn)*1.0000001+1e-12, "covariance diagonal does not exceed the squared range"); } }
  { dvector *v; initDVector(&v); MatrixColVar(m,v); for(size_t a=0;a<HP_P;a++){ double d=v->data[a]-c->data[a][a]; CHECK(v->data[a]>=0.0 && d<=1e-9 && d>=-1e-9, "column variance is non-negative and equals the covariance diagonal to 1e-9"); } }
#endif
  WITNESS();
}
