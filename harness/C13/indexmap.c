/* C13: square_to_condensed_index is a bijection from {(i,j): i<j<n} onto [0, n(n-1)/2), n symbolic <= HP_MAXN (E-BITS) */
#include "lsv.h"
#include "metricspace.h"
void harness(void){
  size_t n=in_size(2,HP_MAXN), i=in_size(0,HP_MAXN), j=in_size(0,HP_MAXN), i2=in_size(0,HP_MAXN), j2=in_size(0,HP_MAXN);
  ASSUME(i<j && j<n && i2<j2 && j2<n);
  size_t a=square_to_condensed_index(i,j,n), b=square_to_condensed_index(i2,j2,n);
  CHECK(a < n*(n-1)/2, "index inside [0, n(n-1)/2)");
  CHECK(a!=b || (i==i2 && j==j2), "index map injective (with the range bound: bijective onto the condensed vector)");
  CHECK(square_to_condensed_index(j,i,n)==a, "index map symmetric");
  /* row-major order of the strict upper triangle: the documented layout */
  if(i==i2 && j2==j+1) CHECK(b==a+1, "consecutive columns are adjacent");
  if(i2==i+1 && j==n-1 && j2==i2+1) CHECK(b==a+1, "row i+1 starts right after row i ends");
  WITNESS();
}
