/* C13: the multithreaded matrix-vector products equal the sequential kernels for EVERY double content, including NaN, +-Inf and
 * the MISSING code (E-BITS, bit-exact): the sequential kernels skip MISSING-coded operands and products that are NaN or infinite;
 * a worker that forgets one of these skips differs only on such inputs. HP_WHICH 0: M v   1: v' M.  HP_R x HP_C, HP_T workers. */
#include "lsv.h"
#include "matrix.h"
#include "memwrapper.h"
static int same(double a, double b){ return a==b || (a!=a && b!=b); }
/* HP_ALPHA 1: every operand is drawn from an alphabet of special and ordinary values (two sums of symbolic doubles are a miter the SAT
 * solver does not finish; the alphabet keeps every combination of NaN / Inf / MISSING / overflow / ordinary operands) */
#if defined(HP_ALPHA) && HP_ALPHA
static double val(void){
  static const double A[7] = { 0.0, 1.0, -2.5, 3.0e200, 99999999.0, 0.0, 0.0 };
  size_t k=in_size(0,6); double v=A[k];
  if(k==5) v=0.0/0.0; if(k==6) v=-1.0/0.0;
  return v; }
#else
static double val(void){ return in_any_double(); }
#endif
void harness(void){
  lsci_verif_nproc = HP_T;
  matrix *m; NewMatrix(&m,HP_R,HP_C);
  for(size_t i=0;i<HP_R;i++)for(size_t j=0;j<HP_C;j++) m->data[i][j]=val();
#if HP_WHICH==0
  dvector *v,*p1,*p2; NewDVector(&v,HP_C); NewDVector(&p1,HP_R); NewDVector(&p2,HP_R);
  for(size_t j=0;j<HP_C;j++) v->data[j]=val();
  MatrixDVectorDotProduct(m,v,p1);
  MT_MatrixDVectorDotProduct(m,v,p2);
  for(size_t i=0;i<HP_R;i++) CHECK(same(p1->data[i],p2->data[i]), "multithreaded M v = sequential M v for every double content (NaN, Inf and MISSING handling included)");
#else
  dvector *v,*p1,*p2; NewDVector(&v,HP_R); NewDVector(&p1,HP_C); NewDVector(&p2,HP_C);
  for(size_t i=0;i<HP_R;i++) v->data[i]=val();
  DVectorMatrixDotProduct(m,v,p1);
  MT_DVectorMatrixDotProduct(m,v,p2);
  for(size_t j=0;j<HP_C;j++) CHECK(same(p1->data[j],p2->data[j]), "multithreaded v' M = sequential v' M for every double content (NaN, Inf and MISSING handling included)");
#endif
  WITNESS();
}
