/* C13: slicing logic of every kernel that splits rows among workers. rows (<= HP_MAXR) and threads (<= HP_MAXT) are
 * SYMBOLIC; the operand has a fixed capacity and its row count is overwritten. The recording pthread model hands each
 * worker's argument to lsv_on_create, which reads [from,to) through the worker-argument struct extracted from the
 * current source (lsv_structs_<tu>.h). Obligation: the ranges are contiguous from 0, pairwise disjoint, inside
 * [0,rows] and cover [0,rows): every row is processed by exactly one worker. Workers themselves are not run here. */
#include "lsv.h"
#include "matrix.h"
#include "metricspace.h"
#include "clustering.h"
#include "memwrapper.h"
#include <pthread.h>
#if HP_SITE <= 2
#include "lsv_structs_matrix.h"
#define FROM(a) (((tharg*)(a))->from)
#define TO(a) (((tharg*)(a))->to)
#elif HP_SITE == 3
#include "lsv_structs_metricspace.h"
#define FROM(a) (((dst_th_arg*)(a))->r_from)
#define TO(a) (((dst_th_arg*)(a))->r_to)
#elif HP_SITE <= 7
#include "lsv_structs_metricspace.h"
#define FROM(a) (((cdst_th_arg*)(a))->r_from)
#define TO(a) (((cdst_th_arg*)(a))->r_to)
#else
#include "lsv_structs_clustering.h"
#define FROM(a) ((size_t)((labels_th_arg*)(a))->from)
#define TO(a) ((size_t)((labels_th_arg*)(a))->to)
#endif
void getLabels_(matrix *m, matrix *centroids, uivector *labels, int nthreads);
static size_t rows, expect_from; static unsigned created; static int bad;
void lsv_on_create(unsigned k, void *(*f)(void *), void *arg){
  size_t from=FROM(arg), to=TO(arg);
  if(from != expect_from) bad = 1;        /* contiguous from 0 and disjoint: each range starts where the previous ended */
  if(to < from || to > rows) bad = 1;     /* inside [0,rows] */
  expect_from = to; created++;
}
void harness(void){
  rows = in_size(0, HP_MAXR); size_t nth = in_size(1, HP_MAXT);
  matrix *m; NewMatrix(&m, HP_MAXR, 1); m->row = rows;          /* fixed-capacity operand, symbolic row count */
#if HP_SITE == 1
  dvector *v, *p; NewDVector(&v, 1); NewDVector(&p, HP_MAXR); p->size = rows;
  ASSUME(nth >= 2); lsci_verif_nproc = nth; MT_MatrixDVectorDotProduct(m, v, p);
#elif HP_SITE == 2
  /* MT_DVectorMatrixDotProduct splits the COLUMNS of m among workers: operand is 1 x capacity with symbolic col */
  matrix *mc; NewMatrix(&mc, 1, HP_MAXR); mc->col = rows; dvector *v, *p; NewDVector(&v, 1); NewDVector(&p, HP_MAXR); p->size = rows;
  ASSUME(nth >= 2); lsci_verif_nproc = nth; MT_DVectorMatrixDotProduct(mc, v, p);
#elif HP_SITE == 3
  matrix *m2, *d; NewMatrix(&m2, 1, 1); NewMatrix(&d, 1, HP_MAXR);
  /* ResizeMatrix(distances, 1, rows) inside: keep it cheap by pre-sizing equal so that it only zeroes */
  d->col = rows; CalculateDistance(m, m2, d, nth, EUCLIDEAN);
#elif HP_SITE >= 4 && HP_SITE <= 7
  dvector *d; initDVector(&d);
#if HP_SITE == 4
  EuclideanDistanceCondensed(m, d, nth);
#elif HP_SITE == 5
  SquaredEuclideanDistanceCondensed(m, d, nth);
#elif HP_SITE == 6
  ManhattanDistanceCondensed(m, d, nth);
#else
  CosineDistanceCondensed(m, d, nth);
#endif
#else
  matrix *c; NewMatrix(&c, 1, 1); uivector *l; NewUIVector(&l, HP_MAXR); l->size = rows;
  getLabels_(m, c, l, (int)nth);
#endif
  CHECK(created >= 1 || rows == 0, "at least one worker is created when there are rows to process");
  CHECK(!bad, "worker ranges are contiguous from 0, pairwise disjoint and inside [0,rows]");
  CHECK(expect_from == rows, "worker ranges cover [0,rows): every row is processed by exactly one worker");
  WITNESS();
}
