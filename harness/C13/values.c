/* C13: multithreaded kernels return, into a zero-initialised output, the single-threaded result (E-REAL: exact
 * arithmetic, so "equal to rounding" becomes equality of the two data flows) for concrete (rows, threads), including
 * threads > rows and non-dividing counts; condensed distances hold the strict upper triangle of the square form under
 * square_to_condensed_index; distance definitions: symmetry, zero self-distance, non-negativity. */
#include "lsv.h"
#include "matrix.h"
#include "metricspace.h"
#include "clustering.h"
#include "memwrapper.h"
void getLabels_(matrix *m, matrix *centroids, uivector *labels, int nthreads);
void getLabels(matrix *m, matrix *centroids, uivector *labels);
static matrix *symmatrix(size_t r, size_t c){ matrix *m; NewMatrix(&m, r, c); for(size_t i=0;i<r;i++)for(size_t j=0;j<c;j++) m->data[i][j]=in_double(-1e3,1e3); return m; }
#define K_DIST 1      /* CalculateDistance(method, threads) == *_ST */
#define K_COND 2      /* condensed(threads)[idx(i,j)] == square_ST[i][j], size n(n-1)/2 */
#define K_LABELS 3    /* getLabels_(threads) == getLabels */
#define K_PROPS 4     /* symmetry, zero self distance, non-negativity on CalculateDistance(m,m) */
void harness(void){
#if HP_KERNEL==K_DIST
  matrix *a=symmatrix(HP_N,HP_C), *b=symmatrix(HP_N2,HP_C); matrix *d, *s; initMatrix(&d); initMatrix(&s);
  CalculateDistance(a,b,d,HP_T,HP_METHOD);
#if HP_METHOD==0
  EuclideanDistance_ST(a,b,s);
#elif HP_METHOD==1
  SquaredEuclideanDistance_ST(a,b,s);
#elif HP_METHOD==2
  ManhattanDistance_ST(a,b,s);
#else
  for(size_t i=0;i<HP_N;i++){ double q=0; for(size_t j=0;j<HP_C;j++) q+=a->data[i][j]*a->data[i][j]; ASSUME(q>=1e-12); }
  for(size_t i=0;i<HP_N2;i++){ double q=0; for(size_t j=0;j<HP_C;j++) q+=b->data[i][j]*b->data[i][j]; ASSUME(q>=1e-12); }
  CosineDistance_ST(a,b,s);
#endif
  CHECK(d->row==HP_N2 && d->col==HP_N && s->row==HP_N2 && s->col==HP_N, "distance matrix is rows(m2) x rows(m1)");
  for(size_t k=0;k<HP_N2;k++)for(size_t i=0;i<HP_N;i++) CHECK_EQ(d->data[k][i], s->data[k][i], "multithreaded distance = single-threaded distance");
#elif HP_KERNEL==K_COND
  matrix *a=symmatrix(HP_N,HP_C); dvector *cd; initDVector(&cd); matrix *s; initMatrix(&s);
#if HP_METHOD==0
  EuclideanDistanceCondensed(a,cd,HP_T); EuclideanDistance_ST(a,a,s);
#elif HP_METHOD==1
  SquaredEuclideanDistanceCondensed(a,cd,HP_T); SquaredEuclideanDistance_ST(a,a,s);
#elif HP_METHOD==2
  ManhattanDistanceCondensed(a,cd,HP_T); ManhattanDistance_ST(a,a,s);
#else
  for(size_t i=0;i<HP_N;i++){ double q=0; for(size_t j=0;j<HP_C;j++) q+=a->data[i][j]*a->data[i][j]; ASSUME(q>=1e-12); }
  CosineDistanceCondensed(a,cd,HP_T); CosineDistance_ST(a,a,s);
#endif
  CHECK(cd->size==(HP_N*(HP_N-1))/2, "condensed form has n(n-1)/2 entries");
  for(size_t i=0;i<HP_N;i++)for(size_t j=i+1;j<HP_N;j++){
    size_t ix=square_to_condensed_index(i,j,HP_N); CHECK(ix<cd->size, "index map lands inside the condensed vector");
    CHECK(square_to_condensed_index(j,i,HP_N)==ix, "index map is symmetric in (i,j)");
    CHECK_EQ(cd->data[ix], s->data[i][j], "condensed[idx(i,j)] = square[i][j] (strict upper triangle)");
  }
#elif HP_KERNEL==K_LABELS
  matrix *a=symmatrix(HP_N,HP_C), *c=symmatrix(HP_N2,HP_C); uivector *l1,*l2; NewUIVector(&l1,HP_N); NewUIVector(&l2,HP_N);
  getLabels_(a,c,l1,HP_T); getLabels(a,c,l2);
  for(size_t i=0;i<HP_N;i++){ CHECK(l1->data[i]==l2->data[i], "multithreaded labels = single-threaded labels"); CHECK(l1->data[i]<HP_N2, "label in range"); }
#elif HP_KERNEL==K_PROPS
  matrix *a=symmatrix(HP_N,HP_C); matrix *d; initMatrix(&d);
  CalculateDistance(a,a,d,HP_T,HP_METHOD);
  for(size_t i=0;i<HP_N;i++){ CHECK_EQ(d->data[i][i], 0.0, "zero self-distance");
    for(size_t j=0;j<HP_N;j++){ CHECK_EQ(d->data[i][j], d->data[j][i], "distance symmetric"); CHECK(d->data[i][j]>=0, "distance non-negative"); } }
#endif
  WITNESS();
}
