/* C04: the regression-coefficient form equals the score-based predictor (E-REAL). A PLS model with SYMBOLIC weights W, loadings P
 * and inner coefficients b (one response, y-loading 1, no scaling stored) constrained only by the structural facts of PLS
 * (p_k.w_k = 1, p_i.w_j = 0 for i > j : C03 code facts + lemmas). For every x: x.betas(a) = sum_{k<=a} b_k t_k(x), with t_k the
 * scores PLSScorePredictor computes. */
#include "lsv.h"
#include "matrix.h"
#include "pls.h"
#ifndef HP_PREFILL
#define HP_PREFILL 0
#endif
void harness(void){
  PLSMODEL *m; NewPLSModel(&m);
  ResizeMatrix(m->xweights,HP_M,HP_NLV); ResizeMatrix(m->xloadings,HP_M,HP_NLV); ResizeMatrix(m->yloadings,1,HP_NLV);
  for(size_t j=0;j<HP_M;j++)for(size_t k=0;k<HP_NLV;k++){ m->xweights->data[j][k]=in_double(-10,10); m->xloadings->data[j][k]=in_double(-10,10); }
  for(size_t k=0;k<HP_NLV;k++){ DVectorAppend(m->b,in_double(-1e3,1e3)); m->yloadings->data[0][k]=1.0; }
  for(size_t i=0;i<HP_NLV;i++)for(size_t j=0;j<=i;j++){ double s=0; for(size_t r=0;r<HP_M;r++) s+=m->xloadings->data[r][i]*m->xweights->data[r][j]; ASSUME(i==j ? s==1.0 : s==0.0); }
  matrix *x,*ts,*y; NewMatrix(&x,1,HP_M); initMatrix(&ts); initMatrix(&y); for(size_t j=0;j<HP_M;j++) x->data[0][j]=in_double(-1e3,1e3);
  dvector *betas;
#if HP_PREFILL
  NewDVector(&betas,HP_M); for(size_t j=0;j<HP_M;j++) betas->data[j]=in_double(-1e3,1e3);      /* re-used output vector of the final size */
#else
  initDVector(&betas);
#endif
  PLSBetasCoeff(m,HP_NLV,betas);
  PLSScorePredictor(x,m,HP_NLV,ts);
  PLSYPredictor(ts,m,HP_NLV,y);
  CHECK(betas->size==HP_M && y->row==1 && y->col==1, "one coefficient per predictor; one prediction");
  { double s=0; for(size_t j=0;j<HP_M;j++) s+=x->data[0][j]*betas->data[j]; CHECK_EQ(s, y->data[0][0], "x . betas = score-based prediction, for every x (training or unseen)"); }
  WITNESS();
}
