/* C04: one latent variable never increases the training residual sum of squares (E-REAL): with the real LVCalc from an arbitrary
 * loop-head state that respects the loop invariant (single response: the y-score u IS the response column and is never written),
 * sum Y'^2 = sum Y^2 - b^2 t't, hence RSS(a+1) <= RSS(a) and R2 is non-decreasing in the number of latent variables.
 * Also: y -> c*y + d on a centred single response scales b by c (predictions are equivariant), one step. */
#include "lsv.h"
#include "matrix.h"
#include "pls.h"
#include "memwrapper.h"
void LVCalc(matrix *X, matrix *Y, dvector *t, dvector *u, dvector *p, dvector *q, dvector *w, double *bcoef);
double calcConvergence(dvector *a, dvector *b){ return 0.0; }
static double Ycol[HP_N]; static double scale=1.0; static matrix *Ycur;
#if HP_WHICH==2
static void loop_head(int site, void *a, void *b, void *c){ dvector *u=a; for(size_t i=0;i<u->size;i++) u->data[i]=Ycur->data[i][0]; }   /* invariant: u = the (deflated) response column */
#else
static void loop_head(int site, void *a, void *b, void *c){ dvector *u=a; for(size_t i=0;i<u->size;i++) u->data[i]=scale*Ycol[i]; }   /* invariant: u = response column */
#endif
void harness(void){
  lsci_verif_loop_head_cb=loop_head;
  matrix *X,*Y; NewMatrix(&X,HP_N,HP_M); NewMatrix(&Y,HP_N,1); double y2=0;
  for(size_t i=0;i<HP_N;i++){ for(size_t j=0;j<HP_M;j++) X->data[i][j]=in_double(-1e3,1e3); Ycol[i]=in_double(-1e3,1e3); Y->data[i][0]=Ycol[i]; y2+=Ycol[i]*Ycol[i]; }
  dvector *t,*u,*p,*q,*w; NewDVector(&t,HP_N); NewDVector(&u,HP_N); NewDVector(&p,HP_M); NewDVector(&q,1); NewDVector(&w,HP_M); double b;
#if HP_WHICH==0
  LVCalc(X,Y,t,u,p,q,w,&b);
  for(size_t i=0;i<HP_N;i++) CHECK_EQ(u->data[i], Ycol[i], "invariant: for a single response the y-score stays the response column");
  { double r2=0, tt=0; for(size_t i=0;i<HP_N;i++){ r2+=Y->data[i][0]*Y->data[i][0]; tt+=t->data[i]*t->data[i]; }
    CHECK_EQ(r2, y2-b*b*tt, "RSS after the latent variable = RSS before - b^2 t't");
    CHECK_LE(r2, y2, "adding a latent variable never increases the residual sum of squares"); }
#elif HP_WHICH==2
  /* OLS limit: after as many latent variables as X has columns (X of full column rank) the residual response is orthogonal to
   * every ORIGINAL predictor - the normal equations of ordinary least squares; the fitted part lies in the column space of X by
   * construction (t = X w on the deflated X), so the PLS fit IS the OLS fit. */
  double X0[HP_N][HP_M]; for(size_t i=0;i<HP_N;i++)for(size_t j=0;j<HP_M;j++) X0[i][j]=X->data[i][j];
#if HP_M==1
  { double xx=0; for(size_t i=0;i<HP_N;i++) xx+=X0[i][0]*X0[i][0]; ASSUME(xx>=1e-12); }
#else
  { double a=0,bb=0,cc=0; for(size_t i=0;i<HP_N;i++){ a+=X0[i][0]*X0[i][0]; bb+=X0[i][0]*X0[i][1]; cc+=X0[i][1]*X0[i][1]; } ASSUME(a*cc-bb*bb>=1e-12); }   /* Gram determinant: full column rank */
#endif
  Ycur=Y;
  for(size_t k=0;k<HP_M;k++){ LVCalc(X,Y,t,u,p,q,w,&b); }
  for(size_t j=0;j<HP_M;j++){ double s=0; for(size_t i=0;i<HP_N;i++) s+=X0[i][j]*Y->data[i][0]; CHECK_EQ(s, 0.0, "with rank(X) latent variables the residual response is orthogonal to every predictor (normal equations: PLS fit = OLS fit)"); }
#else
  /* equivariance: run the step on y and on c*y (a centred response: d drops out with the centring, C10) */
  matrix *X2,*Y2; NewMatrix(&X2,HP_N,HP_M); NewMatrix(&Y2,HP_N,1); double c=in_double(-100,100); ASSUME(c>=1e-2||c<=-1e-2);
  for(size_t i=0;i<HP_N;i++){ for(size_t j=0;j<HP_M;j++) X2->data[i][j]=X->data[i][j]; Y2->data[i][0]=c*Ycol[i]; }
  LVCalc(X,Y,t,u,p,q,w,&b);
  dvector *t2,*u2,*p2,*q2,*w2; NewDVector(&t2,HP_N); NewDVector(&u2,HP_N); NewDVector(&p2,HP_M); NewDVector(&q2,1); NewDVector(&w2,HP_M); double b2;
  scale=c; LVCalc(X2,Y2,t2,u2,p2,q2,w2,&b2);
  /* fitted contribution b t is scaled by c (t itself may flip sign with c) */
  for(size_t i=0;i<HP_N;i++) CHECK_EQ(b2*t2->data[i], c*b*t->data[i], "fitted contribution of the latent variable scales with the response");
#endif
  WITNESS();
}
