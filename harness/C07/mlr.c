/* C07: MLR is ordinary least squares with intercept (E-REAL): X HP_N x HP_P, Y HP_N x HP_NY symbolic. The normal equations
 * hold for every response: residuals sum to zero and are orthogonal to every predictor (for a full-rank design this pins the
 * coefficients down, so noise-free linear data are recovered exactly and the fit is equivariant); predictions of any matrix
 * are intercept + X b; the reported R2 is 1 - RSS/TSS and SDEC is sqrt(RSS/n). */
#include "lsv.h"
#include "matrix.h"
#include "mlr.h"
#include "algebra.h"
#if defined(HP_OLS_CONTRACT) && HP_OLS_CONTRACT
/* compositional variant: OrdinaryLeastSquares is replaced by its contract - coefficients (one per design column, written into a vector
 * it sizes itself) that satisfy the normal equations Z'(y - Z b) = 0 for the design it is GIVEN. What MLR does around it (design with
 * a column of ones, one call per response, coefficient columns, fitted values, residuals, R2, SDEC, means, predictions) is the real
 * code. The contract itself is C12 ols/* (decided for one-column designs; for two columns it is undecided at the quick budget since
 * the inversion repair introduced row exchanges). */
void OrdinaryLeastSquares(matrix *z, dvector *y, dvector *b){
  DVectorResize(b, z->col);
  for(size_t j=0;j<z->col;j++) b->data[j]=in_double(-1e9,1e9);
  for(size_t j=0;j<z->col;j++){ double s=0; for(size_t i=0;i<z->row;i++){ double f=0; for(size_t q=0;q<z->col;q++) f+=z->data[i][q]*b->data[q]; s+=z->data[i][j]*(y->data[i]-f); } ASSUME(s==0.0); }
}
#endif
void harness(void){
  matrix *x,*y; NewMatrix(&x,HP_N,HP_P); NewMatrix(&y,HP_N,HP_NY);
  for(size_t i=0;i<HP_N;i++){ for(size_t j=0;j<HP_P;j++) x->data[i][j]=in_double(-1e3,1e3); for(size_t k=0;k<HP_NY;k++) y->data[i][k]=in_double(-1e3,1e3); }
  for(size_t k=0;k<HP_NY;k++){ double s=0; for(size_t i=0;i<HP_N;i++) s+=y->data[i][k]; ASSUME(s<=-1e-6||s>=1e-6||s==0); }       /* MatrixColAverage tolerance */
  MLRMODEL *m; NewMLRModel(&m);
  MLR(x,y,m,NULL);
  CHECK(m->b->row==HP_P+1 && m->b->col==HP_NY, "one coefficient column (intercept + predictors) per response");
  CHECK(m->recalculated_y->row==HP_N && m->recalculated_y->col==HP_NY && m->r2y_model->size==HP_NY && m->sdec->size==HP_NY, "fitted values and figures of merit per response");
  for(size_t k=0;k<HP_NY;k++){
    if(k!=HP_RESP) continue;              /* one response per obligation (the driver runs them in parallel) */
    double rs=0, rss=0, tss=0, ysum=0; for(size_t i=0;i<HP_N;i++) ysum+=y->data[i][k];
    CHECK_EQ(m->ymean->data[k]*HP_N, ysum, "stored response mean"); double ym=m->ymean->data[k];
    for(size_t i=0;i<HP_N;i++){ double f=m->b->data[0][k]; for(size_t j=0;j<HP_P;j++) f+=x->data[i][j]*m->b->data[j+1][k];
      CHECK_EQ(m->recalculated_y->data[i][k], f, "fitted value = intercept + x.b");
      CHECK_EQ(m->recalc_residuals->data[i][k], f-y->data[i][k], "residual = fitted - observed");
      double r=y->data[i][k]-f; rs+=r; double rc=y->data[i][k]-m->recalculated_y->data[i][k]; rss+=rc*rc; tss+=(y->data[i][k]-ym)*(y->data[i][k]-ym); }   /* rss/tss from the stored fitted values (shown equal to intercept + x.b above) */
    CHECK_EQ(rs, 0.0, "normal equations: residuals sum to zero");
    for(size_t j=0;j<HP_P;j++){ double s=0; for(size_t i=0;i<HP_N;i++){ double f=m->b->data[0][k]; for(size_t q=0;q<HP_P;q++) f+=x->data[i][q]*m->b->data[q+1][k]; s+=x->data[i][j]*(y->data[i][k]-f); }
      CHECK_EQ(s, 0.0, "normal equations: residuals orthogonal to every predictor"); }
    ASSUME(tss>=1e-6);
    CHECK_EQ(m->r2y_model->data[k]*tss, tss-rss, "R2 = 1 - RSS/TSS");
    CHECK(m->sdec->data[k]>=0, "SDEC >= 0"); CHECK_EQ(m->sdec->data[k]*m->sdec->data[k]*HP_N, rss, "SDEC = sqrt(RSS/n)");
  }
  /* prediction of an arbitrary matrix */
  { matrix *nx,*py; NewMatrix(&nx,2,HP_P); initMatrix(&py); for(size_t i=0;i<2;i++)for(size_t j=0;j<HP_P;j++) nx->data[i][j]=in_double(-1e3,1e3);
    MLRPredictY(nx,NULL,m,py,NULL,NULL,NULL);
    CHECK(py->row==2 && py->col==HP_NY, "prediction is objects x responses");
    for(size_t i=0;i<2;i++)for(size_t k=0;k<HP_NY;k++){ if(k!=HP_RESP) continue; double f=m->b->data[0][k]; for(size_t j=0;j<HP_P;j++) f+=nx->data[i][j]*m->b->data[j+1][k]; CHECK_EQ(py->data[i][k], f, "prediction = intercept + x.b for any matrix"); } }
  WITNESS();
}
