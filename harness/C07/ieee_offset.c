/* C07 (E-BITS, IEEE-exact): the R2 reported by MLRPredictY on responses riding on a large common offset (y = HP_OFFSET + k/16,
 * k symbolic in 0..15, not all equal). The model is the intercept-only predictor b0 = mean(y) on a matrix without columns, so
 * RSS = TSS and R2 must be 0 up to rounding (|R2| <= 1e-6): a total sum of squares computed by a cancelling one-pass formula
 * (sum y^2 - 2 m sum y + n m^2) loses its digits here and R2 leaves that band. */
#include "lsv.h"
#include "matrix.h"
#include "mlr.h"
void harness(void){
  matrix *x,*y; NewMatrix(&x,HP_N,0); NewMatrix(&y,HP_N,1); size_t k0=0; int differ=0; double sum=0;
  for(size_t i=0;i<HP_N;i++){ size_t k=in_size(0,15); if(i==0) k0=k; else if(k!=k0) differ=1; y->data[i][0]=(double)(HP_OFFSET)+(double)k/16.0; sum+=y->data[i][0]; }
  ASSUME(differ);
  MLRMODEL *m; NewMLRModel(&m);
  ResizeMatrix(m->b,1,1); m->b->data[0][0]=sum/HP_N;            /* intercept-only model */
  DVectorAppend(m->ymean, sum/HP_N);
  matrix *py; initMatrix(&py); dvector *r2,*sd; initDVector(&r2); initDVector(&sd);
  MLRPredictY(x,y,m,py,NULL,r2,sd);
  CHECK(r2->size==1, "one R2 per response");
  CHECK(r2->data[0]<=1e-6 && r2->data[0]>=-1e-6, "intercept-only model: R2 = 1 - RSS/TSS = 0 to 1e-6 in IEEE arithmetic on offset data");
  WITNESS();
}
