/* C02: the decidable parts of "PCA components are the principal axes" (E-REAL, X HP_N x HP_M symbolic, scaling -1):
 * HP_WHICH 0 (start vector): the iteration starts from the column of largest sample variance (first index on ties);
 *          1 (exit rule): the loop leaves a component only when the documented criterion d = sum (t_new - t_old)^2 / (n sum t_new^2)
 *             evaluated by the REAL calcConvergence on the loop's own vectors is below 1e-10, and keeps iterating otherwise (2 passes);
 *          2 (fixed point): if a pass reproduces its input state exactly (t_out = t_in, p_out = p_in) then E'E p = (t't) p and the
 *             explained variance is eigenvalue/trace*100 - the loading is an eigenvector of the cross-product matrix, also for the
 *             accumulating update p <- norm((p + E't)/t't). Convergence TO the k-th largest eigenpair is a limit statement: not decided. */
#include "lsv.h"
#include "matrix.h"
#include "pca.h"
#include "memwrapper.h"
static double Eg[HP_N][HP_M]; static size_t bestg;
static unsigned heads, convs; static double T0[HP_N], Tin[HP_N], Pin[HP_M], lastv, vals[4]; static int bad_continue;
#if HP_WHICH==2
double calcConvergence(dvector *a, dvector *b){ return 0.0; }
#endif
static void loop_head(int site, void *a, void *b, void *c){
  dvector *t=a, *p=b; heads++;
#if HP_WHICH==0
  if(heads==1){ for(size_t i=0;i<HP_N;i++) CHECK_EQ(t->data[i], Eg[i][bestg], "the iteration starts from the column of largest variance (first index on ties)"); WITNESS(); }
  ASSUME(0);
#elif HP_WHICH==1
  if(heads==1){ dvector *to=c; for(size_t i=0;i<HP_N;i++){ t->data[i]=in_double(-1e3,1e3); to->data[i]=in_double(-1e3,1e3); } for(size_t j=0;j<HP_M;j++) p->data[j]=in_double(-1e3,1e3); }   /* arbitrary loop state: iterate, carried loading and previous iterate */
  else { if(lastv<1e-10) bad_continue=1; }         /* a further pass although the criterion was met */
  ASSUME(heads<=2);
#else
  if(heads==1){ for(size_t i=0;i<HP_N;i++){ Tin[i]=in_double(-1e3,1e3); t->data[i]=Tin[i]; } for(size_t j=0;j<HP_M;j++){ Pin[j]=in_double(-1,1); p->data[j]=Pin[j]; } }
#endif
}
static void pre_conv(int site, void *a, void *b){ dvector *tn=a, *to=b; double v=calcConvergence(tn,to); lastv=v; if(convs<4) vals[convs]=v; convs++;
#if HP_WHICH==1
  { double n=0,d=0; for(size_t i=0;i<HP_N;i++){ n+=(tn->data[i]-to->data[i])*(tn->data[i]-to->data[i]); d+=tn->data[i]*tn->data[i]; } CHECK_EQ(v*((double)HP_N*d), n, "convergence value = sum (t_new - t_old)^2 / (n sum t_new^2)"); }
#endif
}
void harness(void){
  lsci_verif_loop_head_cb=loop_head; lsci_verif_pre_conv_cb=pre_conv; lsci_verif_nproc=1;
  matrix *x; NewMatrix(&x,HP_N,HP_M); double E[HP_N][HP_M];
  for(size_t i=0;i<HP_N;i++)for(size_t j=0;j<HP_M;j++){ E[i][j]=in_double(-1e3,1e3); x->data[i][j]=E[i][j]; }
  PCAMODEL *m; NewPCAModel(&m);
#if HP_WHICH==0
  double var[HP_M]; for(size_t j=0;j<HP_M;j++){ double s=0; for(size_t i=0;i<HP_N;i++) s+=E[i][j]; double mu=s/HP_N, q=0; for(size_t i=0;i<HP_N;i++) q+=(E[i][j]-mu)*(E[i][j]-mu); var[j]=q/(HP_N-1); }
  size_t best=0; for(size_t j=1;j<HP_M;j++) if(var[j]>var[best]) best=j;
  bestg=best; for(size_t i=0;i<HP_N;i++)for(size_t j=0;j<HP_M;j++) Eg[i][j]=E[i][j];
  PCA(x,-1,1,m,NULL);
  /* only the first loop head is explored (ASSUME in the hook): the start vector was captured there */
  CHECK(0, "PCA cannot return in this obligation: exploration stops at the first loop head");
  return;
#else
  PCA(x,-1,1,m,NULL);
#endif
#if HP_WHICH==1
  CHECK(convs>=1 && lastv<1e-10, "the component is left only when the convergence criterion is below the documented 1e-10");
  CHECK(!bad_continue, "the loop does not keep iterating once the criterion is met");
#elif HP_WHICH==2
  { int fixed=1; for(size_t i=0;i<HP_N;i++) if(!(m->scores->data[i][0]==Tin[i])) fixed=0; for(size_t j=0;j<HP_M;j++) if(!(m->loadings->data[j][0]==Pin[j])) fixed=0; ASSUME(fixed); }
  { double tt=0, tr=0; for(size_t i=0;i<HP_N;i++) tt+=Tin[i]*Tin[i]; for(size_t i=0;i<HP_N;i++)for(size_t j=0;j<HP_M;j++) tr+=E[i][j]*E[i][j];
    for(size_t j=0;j<HP_M;j++){ double s=0; for(size_t i=0;i<HP_N;i++) s+=E[i][j]*Tin[i]; CHECK_EQ(s, tt*Pin[j], "at an exact fixed point E'E p = (t't) p: the loading is an eigenvector, t't its eigenvalue"); }
    CHECK_EQ(m->varexp->data[0]*tr, 100.0*tt, "explained variance = eigenvalue / trace * 100"); }
#endif
  WITNESS();
}
