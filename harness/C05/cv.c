/* C05: cross-validation is out-of-sample and a partition (E-BITS). The REAL routines LeaveOneOut / KFoldCV /
 * BootstrapRandomGroupsCV, their workers, random_kfold_group_generator and kfold_group_train_test_split run on a data set
 * whose first predictor column carries the object id (a tag). The learners are replaced by TAGGING STUBS that observe
 * exactly what a learner would be given: the fit stub records the tags (and checks the responses) of the training rows,
 * the predict stub checks that no test tag is in the training set, that train + test = all objects, and returns the
 * tag-coded value 1000*tag + column. The random generator is an ARBITRARY in-range value (covers every seed).
 * HP_CV: 0 LOO, 1 KFold (concrete user group vector HP_GROUPS, enumerated by the driver), 2 bootstrap (HP_G groups, HP_IT iterations).
 * HP_ALGO: 0 MLR, 1 PLS (HP_NLV latent variables), 2 LDA. HP_N objects, HP_NY responses, HP_T threads. */
#include "lsv.h"
#include "matrix.h"
#include "modelvalidation.h"
#include "mlr.h"
#include "pls.h"
#include "lda.h"
#include "numeric.h"
#ifndef HP_IT
#define HP_IT 1
#endif
#ifndef HP_SEEDCMP
#define HP_SEEDCMP 0
#endif
#ifndef HP_PREFILL
#define HP_PREFILL 0
#endif
#ifndef HP_XC
#define HP_XC 1
#endif
#ifndef HP_GROUPS
#define HP_GROUPS 0
#endif
#ifndef HP_RNG_DISTINCT
#define HP_RNG_DISTINCT 0
#endif
static double Y[HP_N][HP_NY];
static unsigned train_mask, fits, predicts; static unsigned hits[HP_N]; static size_t cur_nlv=1;
static int bad_train_y, bad_leak, bad_cover, bad_shape;
static void fit_observe(matrix *x, matrix *y){
  train_mask=0; fits++;
  if(x->row!=y->row || y->col!=HP_NY) bad_shape=1;
  for(size_t r=0;r<x->row;r++){ size_t t=(size_t)x->data[r][0]; if(t>=HP_N){ bad_shape=1; continue; }
    if(train_mask & (1u<<t)) bad_cover=1;               /* an object twice in one training set */
    train_mask|=1u<<t;
    for(size_t c=0;c<HP_NY;c++) if(!(y->data[r][c]==Y[t][c])) bad_train_y=1;   /* training responses are copies of the training objects' responses only */
  }
}
static void predict_observe(matrix *x, matrix *out, size_t cols){
  predicts++; unsigned test_mask=0;
  ResizeMatrix(out, x->row, cols);
  for(size_t r=0;r<x->row;r++){ size_t t=(size_t)x->data[r][0]; if(t>=HP_N){ bad_shape=1; continue; }
    if(train_mask & (1u<<t)) bad_leak=1;                /* the model that predicts t has seen t */
    test_mask|=1u<<t; hits[t]++;
    for(size_t c=0;c<cols;c++) out->data[r][c]=1000.0*(double)t+(double)c;
  }
  if((train_mask|test_mask)!=((1u<<HP_N)-1u)) bad_cover=1;     /* training and test parts together exhaust the data */
}
void MLR(matrix *mx, matrix *my, MLRMODEL *model, ssignal *s){ fit_observe(mx,my); }
void MLRPredictY(matrix *mx, matrix *my, MLRMODEL *model, matrix *predicted_y, matrix *predicted_residuals, dvector *r2y, dvector *sdep){ predict_observe(mx,predicted_y,HP_NY); }
void PLS(matrix *mx, matrix *my, size_t nlv, int xautoscaling, int yautoscaling, PLSMODEL *model, ssignal *s){ cur_nlv=nlv; fit_observe(mx,my); }
void PLSYPredictorAllLV(matrix *mx, PLSMODEL *model, matrix *tscores, matrix *y){ predict_observe(mx,y,HP_NY*cur_nlv); }
void LDA(matrix *mx, matrix *my, LDAMODEL *lda){ fit_observe(mx,my); }
void LDAPrediction(matrix *mx, LDAMODEL *lda, matrix *pfeatures, matrix *probability, matrix *mnpdf, matrix *prediction){ predict_observe(mx,prediction,1); }
/* arbitrary random generator: every draw is any value of the requested range */
static uint32_t seeds_seen[16]; static unsigned nseeds; static unsigned draws_before_seed, seeded;
#define NOTE_SEED(s) do{ if(nseeds<16) seeds_seen[nseeds]=(s); nseeds++; seeded=1; }while(0)
#define NOTE_DRAW() do{ if(!seeded) draws_before_seed++; }while(0)
#if HP_RNG_DISTINCT
/* reduced generator model: draws that the rejection loop would reject are skipped (a rejected draw has no effect other
 * than advancing the generator), i.e. each draw is an arbitrary NOT YET USED object id while unused ids remain */
static unsigned used;
void srand_(uint32_t seed){ used=0; NOTE_SEED(seed); }
int randInt(int low, int high){ NOTE_DRAW(); int v=(int)in_int(low, high-1); if(used!=((1u<<HP_N)-1u)) ASSUME(!(used & (1u<<v))); used|=1u<<v; return v; }
#else
void srand_(uint32_t seed){ NOTE_SEED(seed); }
int randInt(int low, int high){ NOTE_DRAW(); int v=(int)in_int(low, high-1); return v; }
#endif

void harness(void){
  matrix *x,*y; NewMatrix(&x,HP_N,HP_XC); NewMatrix(&y,HP_N,HP_NY);
  for(size_t i=0;i<HP_N;i++){ x->data[i][0]=(double)i; for(size_t c=1;c<HP_XC;c++) x->data[i][c]=in_double(-1e3,1e3); for(size_t c=0;c<HP_NY;c++){ Y[i][c]=in_double(-1e3,1e3); y->data[i][c]=Y[i][c]; } }
  MODELINPUT in; in.mx=x; in.my=y; in.nlv=HP_NLV; in.xautoscaling=0; in.yautoscaling=0;
  matrix *py,*pres;
#if HP_ALGO==0
  AlgorithmType algo=_MLR_; size_t cols=HP_NY; size_t nlv=1;
#elif HP_ALGO==1
  AlgorithmType algo=_PLS_; size_t nlv=(HP_NLV>HP_XC)?HP_XC:HP_NLV; /* nlv is clamped to the number of predictors */ size_t cols=HP_NY*nlv;
#else
  AlgorithmType algo=_LDA_; size_t cols=1; size_t nlv=1;
#endif
#if HP_PREFILL
  /* outputs that already hold data of the final shape (a second validation run re-using its result matrices): the result must not depend on them */
  NewMatrix(&py,HP_N,cols); NewMatrix(&pres,HP_N,cols);
  for(size_t i=0;i<HP_N;i++)for(size_t c=0;c<cols;c++){ py->data[i][c]=in_double(-1e3,1e3); pres->data[i][c]=in_double(-1e3,1e3); }
#else
  initMatrix(&py); initMatrix(&pres);
#endif
#if HP_CV==0
  LeaveOneOut(&in, algo, py, pres, HP_T, NULL, 0);
  unsigned want=1;
#elif HP_CV==1
  static const size_t gl[] = { HP_GROUPS }; uivector *g; NewUIVector(&g,HP_N); for(size_t i=0;i<HP_N;i++) g->data[i]=gl[i];
  KFoldCV(&in, g, algo, py, pres, HP_T, NULL, 0);
  unsigned want=1;
#else
  BootstrapRandomGroupsCV(&in, HP_G, HP_IT, algo, py, pres, HP_T, NULL, 0);
  unsigned want=HP_IT;
#endif
#if HP_CV==2
  /* seeding protocol: every worker seeds before its first draw; and (HP_SEEDCMP) the multiset of seeds a run consumes does not depend on the
   * thread count: the same call with one thread consumes the same seeds (how seeds are derived is the library's business) */
  CHECK(draws_before_seed==0, "workers seed before drawing");
#endif
  CHECK(!bad_shape, "learners receive well-formed training/test matrices");
  CHECK(!bad_leak, "out-of-sample: no model predicts an object it was trained on");
  CHECK(!bad_cover, "training and test parts are disjoint and together exhaust the data");
  CHECK(!bad_train_y, "training responses are those of the training objects only");
  CHECK(py->row==HP_N && py->col==cols, "one prediction row per object");
  for(size_t a=0;a<HP_N;a++){
#if HP_CV==2 && (HP_IT % HP_T) != 0
    /* a thread count that does not divide the iteration count: how many resamplings the library then runs is its own business
       (each of them must still predict every object once: a multiple of the object count is checked through the per-run partition
       checks above); the averaged value below must still be the prediction made for the object */
    CHECK(hits[a]>=want, "every object is predicted at least once per requested iteration");
#else
    CHECK(hits[a]==want, "every object is predicted exactly once per iteration (fold assignment is a partition)");
#endif
    for(size_t c=0;c<cols;c++) CHECK(py->data[a][c]==1000.0*(double)a+(double)c, "object a receives the prediction made for object a (finite)");
  }
#if HP_ALGO!=2
  CHECK(pres->row==HP_N && pres->col==cols, "one residual row per object");
  for(size_t a=0;a<HP_N;a++)for(size_t c=0;c<cols;c++) CHECK(pres->data[a][c]==py->data[a][c]-Y[a][c%HP_NY], "residual = prediction - matching observed response column");
#endif
#if HP_CV==2
#if HP_SEEDCMP
  { uint32_t first[16]; unsigned nfirst=nseeds; for(unsigned k=0;k<16;k++) first[k]=seeds_seen[k];
    nseeds=0; seeded=0; matrix *py1,*pr1; initMatrix(&py1); initMatrix(&pr1);
    BootstrapRandomGroupsCV(&in, HP_G, HP_IT, algo, py1, pr1, 1, NULL, 0);
    int ok=(nseeds==nfirst) && nfirst<=16; unsigned used2=0;
    for(unsigned a=0;a<nfirst && a<16;a++){ int f=0; for(unsigned b=0;b<nseeds && b<16;b++) if(!f && !(used2&(1u<<b)) && seeds_seen[b]==first[a]){ used2|=1u<<b; f=1; } if(!f) ok=0; }
    CHECK(ok, "a run with N threads consumes exactly the seeds of the sequential run (as a multiset)");
    CHECK(nfirst==HP_IT, "one seed per bootstrap iteration"); }
#endif
#endif
  WITNESS();
}
