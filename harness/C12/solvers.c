/* C12: linear solvers, inverses, determinant satisfy their defining equations (E-REAL), HP_N x HP_N symbolic matrix.
 * HP_WHICH 0: MatrixInversion  M * M^-1 = I and M^-1 * M = I     (pivot region: see known finding C12_no_pivoting)
 *          1: SolveLSE on [A|b]: A x = b, solution vector handed in with arbitrary previous contents
 *          2: MatrixDeterminant = Leibniz sum
 *          3: OrdinaryLeastSquares: normal equations X'(y - X b) = 0 (HP_N rows x HP_P columns) */
#include "lsv.h"
#include "matrix.h"
#include "algebra.h"
#ifndef HP_P
#define HP_P 1
#endif
#ifndef HP_PREFILL
#define HP_PREFILL 0
#endif
static double det2(double a,double b,double c,double d){ return a*d-b*c; }
void harness(void){
#if HP_WHICH==0
  matrix *m,*inv; NewMatrix(&m,HP_N,HP_N);
#if HP_PREFILL
  NewMatrix(&inv,HP_N,HP_N); for(size_t i=0;i<HP_N;i++)for(size_t j=0;j<HP_N;j++) inv->data[i][j]=in_double(-1e3,1e3);
#else
  initMatrix(&inv);
#endif
#if defined(HP_SMALL) && HP_SMALL
  /* well conditioned but in a small unit: |entries| <= s = 10^-HP_SMALL, |det| >= s^N/100 (no absolute threshold may decide) */
  const double sc = HP_SMALL==3 ? 1e-3 : HP_SMALL==5 ? 1e-5 : 1e-7;
  for(size_t i=0;i<HP_N;i++)for(size_t j=0;j<HP_N;j++){ m->data[i][j]=in_double(-sc,sc); }
#if HP_N==1
  ASSUME(m->data[0][0]*100>=sc || m->data[0][0]*100<=-sc);
#else
  { double d=det2(m->data[0][0],m->data[0][1],m->data[1][0],m->data[1][1]); ASSUME(d*100>=sc*sc||d*100<=-sc*sc); }
#endif
#else
  for(size_t i=0;i<HP_N;i++)for(size_t j=0;j<HP_N;j++) m->data[i][j]=in_double(-10,10);
#endif
#if defined(HP_SMALL) && HP_SMALL
#elif HP_N==1
  ASSUME(m->data[0][0]>=1e-2 || m->data[0][0]<=-1e-2);
#elif HP_N==2
  { double d=det2(m->data[0][0],m->data[0][1],m->data[1][0],m->data[1][1]); ASSUME(d>=1e-2||d<=-1e-2); }
#else
  { double d=m->data[0][0]*det2(m->data[1][1],m->data[1][2],m->data[2][1],m->data[2][2])-m->data[0][1]*det2(m->data[1][0],m->data[1][2],m->data[2][0],m->data[2][2])+m->data[0][2]*det2(m->data[1][0],m->data[1][1],m->data[2][0],m->data[2][1]); ASSUME(d>=1e-2||d<=-1e-2); }
#endif
  MatrixInversion(m,inv);
  CHECK(inv->row==HP_N && inv->col==HP_N, "inverse has the shape of the matrix");
  for(size_t i=0;i<HP_N;i++)for(size_t j=0;j<HP_N;j++){ double s=0, r=0; for(size_t k=0;k<HP_N;k++){ s+=m->data[i][k]*inv->data[k][j]; r+=inv->data[i][k]*m->data[k][j]; }
    CHECK_EQ(s, i==j?1.0:0.0, "M * M^-1 = I"); CHECK_EQ(r, i==j?1.0:0.0, "M^-1 * M = I"); }
#elif HP_WHICH==1
  matrix *ab; NewMatrix(&ab,HP_N,HP_N+1); double A[HP_N][HP_N], B[HP_N];
  for(size_t i=0;i<HP_N;i++){ for(size_t j=0;j<HP_N;j++){ double v=in_double(-10,10); ASSUME(v==0 || v>=1e-3 || v<=-1e-3); A[i][j]=v; ab->data[i][j]=v; } B[i]=in_double(-10,10); ab->data[i][HP_N]=B[i]; }
#if HP_N==2
  { double d=det2(A[0][0],A[0][1],A[1][0],A[1][1]); ASSUME(d>=1e-1||d<=-1e-1); }
#elif HP_N==1
  ASSUME(A[0][0]>=1e-3||A[0][0]<=-1e-3);
#endif
  dvector *x; NewDVector(&x,HP_N); for(size_t i=0;i<HP_N;i++) x->data[i]=in_double(-1e3,1e3);      /* re-used solution vector */
  SolveLSE(ab,x);
  CHECK(x->size==HP_N, "one unknown per equation");
  for(size_t i=0;i<HP_N;i++){ double s=0; for(size_t j=0;j<HP_N;j++) s+=A[i][j]*x->data[j]; CHECK_EQ(s, B[i], "A x = b"); }
#elif HP_WHICH==2
  matrix *m; NewMatrix(&m,HP_N,HP_N); for(size_t i=0;i<HP_N;i++)for(size_t j=0;j<HP_N;j++) m->data[i][j]=in_double(-10,10);
  double d=MatrixDeterminant(m), e;
#if HP_N==1
  e=m->data[0][0];
#elif HP_N==2
  e=det2(m->data[0][0],m->data[0][1],m->data[1][0],m->data[1][1]);
#elif HP_N==3
  e=0; { static const int pm[6][3]={{0,1,2},{0,2,1},{1,0,2},{1,2,0},{2,0,1},{2,1,0}}; static const int sg[6]={1,-1,-1,1,1,-1};
    for(int p=0;p<6;p++) e+=sg[p]*m->data[0][pm[p][0]]*m->data[1][pm[p][1]]*m->data[2][pm[p][2]]; }
#else
  e=0; { int p[4]; for(p[0]=0;p[0]<4;p[0]++)for(p[1]=0;p[1]<4;p[1]++)for(p[2]=0;p[2]<4;p[2]++)for(p[3]=0;p[3]<4;p[3]++){
      if(p[0]==p[1]||p[0]==p[2]||p[0]==p[3]||p[1]==p[2]||p[1]==p[3]||p[2]==p[3]) continue;
      int inv=0; for(int a=0;a<4;a++)for(int b=a+1;b<4;b++) if(p[a]>p[b]) inv++;
      e+=(inv%2?-1.0:1.0)*m->data[0][p[0]]*m->data[1][p[1]]*m->data[2][p[2]]*m->data[3][p[3]]; } }
#endif
  CHECK_EQ(d, e, "determinant = Leibniz sum over permutations");
#else
  matrix *x; NewMatrix(&x,HP_N,HP_P); dvector *y,*b; NewDVector(&y,HP_N);
#if HP_PREFILL
  NewDVector(&b,HP_P); for(size_t j=0;j<HP_P;j++) b->data[j]=in_double(-1e3,1e3);
#else
  initDVector(&b);
#endif
  for(size_t i=0;i<HP_N;i++){ for(size_t j=0;j<HP_P;j++) x->data[i][j]=in_double(-10,10); y->data[i]=in_double(-10,10); }
  OrdinaryLeastSquares(x,y,b);
  CHECK(b->size==HP_P, "one coefficient per column");
  for(size_t j=0;j<HP_P;j++){ double s=0; for(size_t i=0;i<HP_N;i++){ double f=0; for(size_t q=0;q<HP_P;q++) f+=x->data[i][q]*b->data[q]; s+=x->data[i][j]*(y->data[i]-f); } CHECK_EQ(s, 0.0, "normal equations X'(y - X b) = 0"); }
#endif
  WITNESS();
}
