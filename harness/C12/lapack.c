/* C12: LAPACK wrappers with contract stubs (arbitrary results written to exactly the extents LAPACK documents): memory
 * safety of the wrapper's own buffers and column-major conversions, and the shapes of what it returns (E-BITS).
 * HP_WHICH 0: SVDlapack (HP_R x HP_C, square and rectangular), 1: MatrixLUInversion, 2: EVectEval */
#include "lsv.h"
#include "matrix.h"
void harness(void){
  matrix *a; NewMatrix(&a,HP_R,HP_C); for(size_t i=0;i<HP_R;i++)for(size_t j=0;j<HP_C;j++){ double v=in_any_double(); ASSUME(v==v && v-v==0); a->data[i][j]=v; }
#if HP_WHICH==0
  matrix *u,*s,*vt; initMatrix(&u); initMatrix(&s); initMatrix(&vt);
  SVDlapack(a,u,s,vt);
  size_t k = HP_R<HP_C ? HP_R : HP_C;
  /* U S VT must be conformable and have the shape of the input (dgesdd may report failure: then nothing is returned) */
  if(u->row!=0 || s->row!=0 || vt->row!=0){
    CHECK(u->row==HP_R && vt->col==HP_C, "U has the rows of A, VT has the columns of A");
    CHECK(u->col==s->row && s->col==vt->row, "U, S and VT are conformable (U S VT has the shape of A)");
    CHECK(s->row==s->col && s->row>=k, "S is square and holds min(m,n) singular values");
  }
#elif HP_WHICH==1
  matrix *inv; initMatrix(&inv); MatrixLUInversion(a,inv);
  CHECK(inv->row==HP_R && inv->col==HP_C, "inverse has the shape of the matrix");
#else
  dvector *ev; matrix *evec; initDVector(&ev); initMatrix(&evec); EVectEval(a,ev,evec);
  CHECK(ev->size==HP_R && evec->row==HP_R && evec->col==HP_R, "n eigenvalues and an n x n eigenvector matrix");
#endif
  WITNESS();
}
