/* C12: MatrixMoorePenrosePseudoinverse (A+ = (A'A)^-1 A') satisfies the four Penrose conditions for every full-column-rank A
 * (E-REAL, A HP_R x HP_C symbolic). The inner inverse of the symmetric matrix A'A goes through MatrixPseudoinversion -> SVD() ->
 * LAPACK, which cannot be encoded: MatrixPseudoinversion is replaced by its CONTRACT for a non-singular argument (an X of the
 * argument's shape with M X = X M = I, written into a result that it resizes itself); transpose, products, shapes and the
 * handling of the caller's result matrix are the real code. HP_PREFILL 1: the result matrix handed in already has the final
 * shape and arbitrary content (a re-used object). */
#include "lsv.h"
#include "matrix.h"
#define R HP_R
#define C HP_C
void MatrixPseudoinversion(matrix *m, matrix *m_inv){
  size_t n=m->row; ResizeMatrix(m_inv,n,n);
  for(size_t i=0;i<n;i++)for(size_t j=0;j<n;j++) m_inv->data[i][j]=in_double(-1e6,1e6);
  for(size_t i=0;i<n;i++)for(size_t j=0;j<n;j++){ double a=0,b=0; for(size_t k=0;k<n;k++){ a+=m->data[i][k]*m_inv->data[k][j]; b+=m_inv->data[i][k]*m->data[k][j]; } ASSUME(a==(i==j?1.0:0.0)); ASSUME(b==(i==j?1.0:0.0)); }
}
void harness(void){
  matrix *a,*p; NewMatrix(&a,R,C); double A[R][C];
  for(size_t i=0;i<R;i++)for(size_t j=0;j<C;j++){ A[i][j]=in_double(-1e3,1e3); a->data[i][j]=A[i][j]; }
#if C==1
  { double g=0; for(size_t i=0;i<R;i++) g+=A[i][0]*A[i][0]; ASSUME(g>=1e-12); }
#else
  { double g=0,h=0,k=0; for(size_t i=0;i<R;i++){ g+=A[i][0]*A[i][0]; h+=A[i][0]*A[i][1]; k+=A[i][1]*A[i][1]; } ASSUME(g*k-h*h>=1e-12); }   /* full column rank */
#endif
#if HP_PREFILL
  NewMatrix(&p,C,R); for(size_t i=0;i<C;i++)for(size_t j=0;j<R;j++) p->data[i][j]=in_double(-1e3,1e3);
#else
  initMatrix(&p);
#endif
  MatrixMoorePenrosePseudoinverse(a,p);
  CHECK(p->row==C && p->col==R, "the pseudo-inverse of an r x c matrix is c x r");
  for(size_t i=0;i<R;i++)for(size_t j=0;j<C;j++) CHECK_EQ(a->data[i][j], A[i][j], "the input matrix is not modified");
  double AP[R][R], PA[C][C];
  for(size_t i=0;i<R;i++)for(size_t j=0;j<R;j++){ double s=0; for(size_t k=0;k<C;k++) s+=A[i][k]*p->data[k][j]; AP[i][j]=s; }
  for(size_t i=0;i<C;i++)for(size_t j=0;j<C;j++){ double s=0; for(size_t k=0;k<R;k++) s+=p->data[i][k]*A[k][j]; PA[i][j]=s; }
  for(size_t i=0;i<C;i++)for(size_t j=0;j<C;j++) CHECK_EQ(PA[i][j], i==j?1.0:0.0, "A+ A = I for full column rank (hence A A+ A = A, A+ A A+ = A+ and A+ A symmetric)");
  for(size_t i=0;i<R;i++)for(size_t j=i+1;j<R;j++) CHECK_EQ(AP[i][j], AP[j][i], "A A+ is symmetric");
  WITNESS();
}
