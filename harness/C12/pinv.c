/* C12: the SVD-based pseudo-inverse.
 * HP_WHICH 0 (E-REAL, composition): MatrixPseudoinversion computes "U" S^-1 "VT" from whatever SVD() returns. In the library's
 *   convention SVD() puts the eigenvectors of A'A into "U" and (eigenvectors of AA')' into "VT", i.e. a correct decomposition
 *   has A = VT' S U'. The harness replaces SVD() by its CONTRACT: arbitrary orthonormal factors P ("U"), Q ("VT") and positive
 *   singular values, with the input matrix DEFINED as Q' S P'. For every such triple the result X must satisfy A X = X A = I
 *   (square, full rank). This is the universally quantified half: the pseudo-inverse is right whenever SVD() is.
 * HP_WHICH 1 (native witness of the known finding C12_svd_eigen_nonsymmetric): the real eigen-based SVD() computes both factors
 *   from two independent LAPACK eigen-decompositions (of AA' and of A'A); their signs and order are unrelated for a
 *   non-symmetric A, the factors do not multiply back and the pseudo-inverse is wrong. Input read from the replay file. */
#include "lsv.h"
#include "matrix.h"
#include <math.h>
#define N HP_N
#if HP_WHICH==0
static double P[N][N], Q[N][N], Sg[N];
void SVD(matrix *m, matrix *U, matrix *S, matrix *VT){
  ResizeMatrix(U,N,N); ResizeMatrix(VT,N,N); ResizeMatrix(S,N,N);
  for(size_t i=0;i<N;i++)for(size_t j=0;j<N;j++){ U->data[i][j]=P[i][j]; VT->data[i][j]=Q[i][j]; S->data[i][j]= i==j ? Sg[i] : 0.0; }
}
#endif
void harness(void){
  matrix *m,*x; NewMatrix(&m,N,N);
#if defined(HP_PREFILL) && HP_PREFILL
  NewMatrix(&x,N,N); for(size_t i=0;i<N;i++)for(size_t j=0;j<N;j++) x->data[i][j]=in_double(-1e3,1e3);      /* a re-used result matrix of the final shape */
#else
  initMatrix(&x);
#endif
#if HP_WHICH==0
  for(size_t i=0;i<N;i++){ Sg[i]=in_double(1e-2,1e2); for(size_t j=0;j<N;j++){ P[i][j]=in_double(-1,1); Q[i][j]=in_double(-1,1); } }
  for(size_t i=0;i<N;i++)for(size_t j=0;j<N;j++){ double a=0,b=0; for(size_t k=0;k<N;k++){ a+=P[k][i]*P[k][j]; b+=Q[i][k]*Q[j][k]; } ASSUME(a==(i==j?1.0:0.0)); ASSUME(b==(i==j?1.0:0.0)); }   /* orthonormal columns of P, rows of Q */
  for(size_t i=0;i<N;i++)for(size_t j=0;j<N;j++){ double a=0; for(size_t k=0;k<N;k++) a+=Q[k][i]*Sg[k]*P[j][k]; m->data[i][j]=a; }      /* A = Q' S P' */
#else
  for(size_t i=0;i<N;i++)for(size_t j=0;j<N;j++) m->data[i][j]=in_double(-1e3,1e3);
#endif
  double A[N][N]; for(size_t i=0;i<N;i++)for(size_t j=0;j<N;j++) A[i][j]=m->data[i][j];
  MatrixPseudoinversion(m,x);
  CHECK(x->row==N && x->col==N, "pseudo-inverse of a square matrix is square");
  for(size_t i=0;i<N;i++)for(size_t j=0;j<N;j++){ double a=0; for(size_t k=0;k<N;k++) a+=A[i][k]*x->data[k][j]; CHECK_EQ(a, i==j?1.0:0.0, "A * pinv(A) = I for a non-singular square matrix"); }
  WITNESS();
}
