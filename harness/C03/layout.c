/* C03: assembly of recalculated_y / recalc_residuals by the real PLS() for HP_NLV latent variables and HP_NY responses, with
 * the latent-variable computation HAVOCED (arbitrary t,u,p,q,w,b per latent variable: an over-approximation), so that the
 * obligation is free of iterative arithmetic. E-REAL (the data flow of the assembly, exact arithmetic): recalculated_y column ny*(a-1)+j is PLSYPredictor's column j
 * for a latent variables and recalc_residuals = recalculated - observed response j. Scaling options -1 (none). */
#include "lsv.h"
#include "matrix.h"
#include "pls.h"
static double Tt[HP_NLV][HP_N], Qq[HP_NLV][HP_NY], Bb[HP_NLV]; static unsigned lv;
void LVCalc(matrix *X, matrix *Y, dvector *t, dvector *u, dvector *p, dvector *q, dvector *w, double *b){
  for(size_t i=0;i<t->size;i++){ t->data[i]=in_double(-1e3,1e3); u->data[i]=in_double(-1e3,1e3); if(lv<HP_NLV) Tt[lv][i]=t->data[i]; }
  for(size_t i=0;i<p->size;i++){ p->data[i]=in_double(-1e3,1e3); w->data[i]=in_double(-1e3,1e3); }
  for(size_t i=0;i<q->size;i++){ q->data[i]=in_double(-1e3,1e3); if(lv<HP_NLV) Qq[lv][i]=q->data[i]; }
  *b=in_double(-1e3,1e3); if(lv<HP_NLV) Bb[lv]=*b; lv++;
}
void harness(void){
  matrix *x,*y; NewMatrix(&x,HP_N,HP_M); NewMatrix(&y,HP_N,HP_NY);
  for(size_t i=0;i<HP_N;i++){ for(size_t j=0;j<HP_M;j++){ double v=in_double(-1e3,1e3); x->data[i][j]=v; } for(size_t j=0;j<HP_NY;j++){ double v=in_double(-1e3,1e3); y->data[i][j]=v; } }
  PLSMODEL *m; NewPLSModel(&m);
  PLS(x,y,HP_NLV,-1,-1,m,NULL);
  CHECK(lv==HP_NLV && m->b->size==HP_NLV, "one latent variable computed per requested component");
  CHECK(m->recalculated_y->row==HP_N && m->recalculated_y->col==HP_NY*HP_NLV && m->recalc_residuals->row==HP_N && m->recalc_residuals->col==HP_NY*HP_NLV, "recalculated responses/residuals: objects x (responses * latent variables)");
  for(size_t i=0;i<HP_N;i++)for(size_t a=0;a<HP_NLV;a++)for(size_t j=0;j<HP_NY;j++){
    size_t c=HP_NY*a+j;
    double e=0; for(size_t k=0;k<=a;k++) e+=Bb[k]*Tt[k][i]*Qq[k][j];
    double rc=m->recalculated_y->data[i][c];
    CHECK_EQ(rc, e, "recalculated_y[.][ny*(a-1)+j] = sum_{k<=a} b_k t_k q_kj");
    double r=m->recalc_residuals->data[i][c], d=rc-y->data[i][j];
    CHECK_EQ(r, d, "recalc_residuals = recalculated - observed response j, column by column");
  }
  WITNESS();
}
