/* C03: PLSYPredictor and PLSScorePredictor on a model with symbolic weights/loadings/b and symbolic stored averages/scalings
 * of either sign (E-REAL): y = (sum_{k<=a} b_k t_k q_k') * yscale + ymean for every presence combination; predicted x-scores
 * are the successive t_k = X_k w_k with X_{k+1} = X_k - t_k p_k' on the matrix preprocessed with the stored x vectors. */
#include "lsv.h"
#include "matrix.h"
#include "pls.h"
#ifndef HP_PREFILL
#define HP_PREFILL 0
#endif
static double sgn_range(void){ double v=in_double(-1e3,1e3); ASSUME(v>=0.02 || v<=-0.02); return v; }
void harness(void){
  PLSMODEL *m; NewPLSModel(&m);
#if HP_WHICH==0
  ResizeMatrix(m->yloadings,HP_NY,HP_NLV); for(size_t j=0;j<HP_NY;j++)for(size_t k=0;k<HP_NLV;k++) m->yloadings->data[j][k]=in_double(-10,10);
  for(size_t k=0;k<HP_NLV;k++) DVectorAppend(m->b,in_double(-1e3,1e3));
  double mean[HP_NY], scal[HP_NY]; for(size_t j=0;j<HP_NY;j++){ mean[j]=0; scal[j]=1; }
#if HP_PRE>=1
  for(size_t j=0;j<HP_NY;j++){ mean[j]=in_double(-1e3,1e3); DVectorAppend(m->ycolaverage,mean[j]); }
#endif
#if HP_PRE>=2
  for(size_t j=0;j<HP_NY;j++){ scal[j]=sgn_range(); DVectorAppend(m->ycolscaling,scal[j]); }
#endif
  matrix *t,*y; NewMatrix(&t,HP_N,HP_NLV);
#if HP_PREFILL
  NewMatrix(&y,HP_N,HP_NY); for(size_t i=0;i<HP_N;i++)for(size_t j=0;j<HP_NY;j++) y->data[i][j]=in_double(-1e3,1e3);
#else
  initMatrix(&y);
#endif
  for(size_t i=0;i<HP_N;i++)for(size_t k=0;k<HP_NLV;k++) t->data[i][k]=in_double(-1e3,1e3);
  PLSYPredictor(t,m,HP_A,y);
  CHECK(y->row==HP_N && y->col==HP_NY, "prediction is objects x responses");
  size_t a = HP_A>HP_NLV ? HP_NLV : HP_A;
  for(size_t i=0;i<HP_N;i++)for(size_t j=0;j<HP_NY;j++){ double s=0; for(size_t k=a;k>0;k--) s+=m->b->data[k-1]*t->data[i][k-1]*m->yloadings->data[j][k-1];
    CHECK_EQ(y->data[i][j], s*scal[j]+mean[j], "y = (sum_{k<=a} b_k t_k q_k') back-transformed with the stored scale and mean"); }
#else
  ResizeMatrix(m->xweights,HP_M,HP_NLV); ResizeMatrix(m->xloadings,HP_M,HP_NLV);
  for(size_t j=0;j<HP_M;j++)for(size_t k=0;k<HP_NLV;k++){ m->xweights->data[j][k]=in_double(-10,10); m->xloadings->data[j][k]=in_double(-10,10); }
  double mean[HP_M], scal[HP_M]; for(size_t j=0;j<HP_M;j++){ mean[j]=0; scal[j]=1; }
#if HP_PRE>=1
  for(size_t j=0;j<HP_M;j++){ mean[j]=in_double(-1e3,1e3); DVectorAppend(m->xcolaverage,mean[j]); }
#endif
#if HP_PRE>=2
  for(size_t j=0;j<HP_M;j++){ scal[j]=sgn_range(); DVectorAppend(m->xcolscaling,scal[j]); }
#endif
  matrix *x,*ts; NewMatrix(&x,HP_N,HP_M);
#if HP_PREFILL
  { size_t aa = HP_A>HP_NLV ? HP_NLV : HP_A; NewMatrix(&ts,HP_N,aa); for(size_t i=0;i<HP_N;i++)for(size_t k=0;k<aa;k++) ts->data[i][k]=in_double(-1e3,1e3); }
#else
  initMatrix(&ts);
#endif
  double E[HP_N][HP_M];
  for(size_t i=0;i<HP_N;i++)for(size_t j=0;j<HP_M;j++){ x->data[i][j]=in_double(-1e3,1e3); E[i][j]=(x->data[i][j]-mean[j])/scal[j]; }
  PLSScorePredictor(x,m,HP_A,ts);
  size_t a = HP_A>HP_NLV ? HP_NLV : HP_A;
  CHECK(ts->row==HP_N && ts->col==a, "one score column per requested latent variable (clamped)");
  for(size_t k=0;k<a;k++){
    for(size_t i=0;i<HP_N;i++){ double s=0; for(size_t j=HP_M;j>0;j--) s+=E[i][j-1]*m->xweights->data[j-1][k]; CHECK_EQ(ts->data[i][k], s, "predicted x-score t_k = X_k w_k"); }
    for(size_t i=0;i<HP_N;i++)for(size_t j=0;j<HP_M;j++) E[i][j]-=ts->data[i][k]*m->xloadings->data[j][k];
  }
#endif
  WITNESS();
}
