/* C03/C18: LVCalc starts its iteration from the response column of largest sample variance (first index on ties) - so a constant
 * response next to a non-constant one is never chosen as start vector (E-REAL; the start vector is read at the first loop head
 * through the guarded hook, exploration stops there). */
#include "lsv.h"
#include "matrix.h"
#include "pls.h"
#include "memwrapper.h"
void LVCalc(matrix *X, matrix *Y, dvector *t, dvector *u, dvector *p, dvector *q, dvector *w, double *bcoef);
static double Yg[HP_N][HP_NY]; static size_t best;
static void loop_head(int site, void *a, void *b, void *c){ dvector *u=a;
  for(size_t i=0;i<HP_N;i++) CHECK_EQ(u->data[i], Yg[i][best], "the y-score starts as the response column of largest variance (first index on ties)");
  WITNESS(); ASSUME(0); }
void harness(void){
  lsci_verif_loop_head_cb=loop_head;
  matrix *X,*Y; NewMatrix(&X,HP_N,HP_M); NewMatrix(&Y,HP_N,HP_NY);
  for(size_t i=0;i<HP_N;i++){ for(size_t j=0;j<HP_M;j++) X->data[i][j]=in_double(-1e3,1e3); for(size_t j=0;j<HP_NY;j++){ Yg[i][j]=in_double(-1e3,1e3); Y->data[i][j]=Yg[i][j]; } }
  double var[HP_NY]; for(size_t j=0;j<HP_NY;j++){ double s=0; for(size_t i=0;i<HP_N;i++) s+=Yg[i][j]; double mu=s/HP_N, q=0; for(size_t i=0;i<HP_N;i++) q+=(Yg[i][j]-mu)*(Yg[i][j]-mu); var[j]=q/(HP_N-1); }
  best=0; for(size_t j=1;j<HP_NY;j++) if(var[j]>var[best]) best=j;
  dvector *t,*u,*p,*q,*w; NewDVector(&t,HP_N); NewDVector(&u,HP_N); NewDVector(&p,HP_M); NewDVector(&q,HP_NY); NewDVector(&w,HP_M); double b;
  LVCalc(X,Y,t,u,p,q,w,&b);
  CHECK(0, "LVCalc cannot return in this obligation: exploration stops at the first loop head");
}
