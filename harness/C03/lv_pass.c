/* C03: one latent variable of the real LVCalc (X HP_N x HP_M, Y HP_N x HP_NY symbolic) from an ARBITRARY loop-head state:
 * the guarded hook hands the loop-carried y-score u to the harness at every loop head, where it is overwritten with symbolic
 * values; the convergence verdict is forced, so the loop runs its two mandatory passes. E-REAL. */
#include "lsv.h"
#include "matrix.h"
#include "pls.h"
#include "memwrapper.h"
void LVCalc(matrix *X, matrix *Y, dvector *t, dvector *u, dvector *p, dvector *q, dvector *w, double *bcoef);
double calcConvergence(dvector *a, dvector *b){ return 0.0; }
static double Ulast[HP_N];
static void loop_head(int site, void *a, void *b, void *c){ dvector *u=a; for(size_t i=0;i<u->size;i++){ u->data[i]=in_double(-1e3,1e3); Ulast[i]=u->data[i]; } }
void harness(void){
  lsci_verif_loop_head_cb = loop_head;
  matrix *X,*Y; NewMatrix(&X,HP_N,HP_M); NewMatrix(&Y,HP_N,HP_NY); double X0[HP_N][HP_M], Y0[HP_N][HP_NY];
  for(size_t i=0;i<HP_N;i++){ for(size_t j=0;j<HP_M;j++){ X0[i][j]=in_double(-1e3,1e3); X->data[i][j]=X0[i][j]; } for(size_t j=0;j<HP_NY;j++){ Y0[i][j]=in_double(-1e3,1e3); Y->data[i][j]=Y0[i][j]; } }
  dvector *t,*u,*p,*q,*w; NewDVector(&t,HP_N); NewDVector(&u,HP_N); NewDVector(&p,HP_M); NewDVector(&q,HP_NY); NewDVector(&w,HP_M); double b;
  LVCalc(X,Y,t,u,p,q,w,&b);
#if HP_PART==0
  for(size_t i=0;i<HP_N;i++){ double s=0; for(size_t j=HP_M;j>0;j--) s+=X0[i][j-1]*w->data[j-1]; CHECK_EQ(t->data[i], s, "t = X w (after the |p| rescale of t and w)"); }
  { double pp=0; for(size_t j=0;j<HP_M;j++) pp+=p->data[j]*p->data[j]; CHECK_EQ(pp, 1.0, "x-loading has unit norm"); }
  for(size_t i=0;i<HP_N;i++)for(size_t j=0;j<HP_M;j++) CHECK_EQ(X->data[i][j], X0[i][j]-t->data[i]*p->data[j], "X deflation: X' = X - t p'");
#elif HP_PART==1
  for(size_t i=0;i<HP_N;i++)for(size_t j=0;j<HP_NY;j++) CHECK_EQ(Y->data[i][j], Y0[i][j]-b*t->data[i]*q->data[j], "Y deflation: Y' = Y - b t q'");
  { double tt=0, ut=0; for(size_t i=0;i<HP_N;i++){ tt+=t->data[i]*t->data[i]; ut+=u->data[i]*t->data[i]; } CHECK_EQ(b*tt, ut, "inner relation b = u't / t't"); }
  { double qq=0; for(size_t j=0;j<HP_NY;j++) qq+=q->data[j]*q->data[j]; CHECK_EQ(qq, 1.0, "y-loading has unit norm (q = 1 for a single response)"); }
  /* residual sum of squares never increases: sum Y'^2 = sum Y^2 - 2 b t'Y q + b^2 t't q'q  (exact identity of the deflation) */
#else
  /* code facts behind score/weight orthogonality (the closing algebra is in C01/lemmas.c, lemmas 5..9):
   *   F2: X't = (t't) p  (through the |p| rescale)      F3: w is parallel to X'u for the u that entered the exiting pass */
  { double tt=0; for(size_t i=0;i<HP_N;i++) tt+=t->data[i]*t->data[i];
    for(size_t j=0;j<HP_M;j++){ double s=0; for(size_t i=0;i<HP_N;i++) s+=X0[i][j]*t->data[i]; CHECK_EQ(s, tt*p->data[j], "X't = (t't) p"); }
    double R[HP_M]; for(size_t j=0;j<HP_M;j++){ double s=0; for(size_t i=0;i<HP_N;i++) s+=X0[i][j]*Ulast[i]; R[j]=s; }
    for(size_t a=0;a<HP_M;a++)for(size_t c=a+1;c<HP_M;c++) CHECK_EQ(w->data[a]*R[c], w->data[c]*R[a], "w is parallel to X'u"); }
#endif
  WITNESS();
}
