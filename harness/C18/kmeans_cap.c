/* C18: KMeans returns after a bounded number of iterations whatever the labelling / centroid steps produce (E-BITS):
 * HP_WHICH 0: the real KMeans loop with getLabels_ and getCentroids HAVOCED (arbitrary labels in range, arbitrary centroid
 *             values including NaN/Inf), random initialiser with an arbitrary generator; the loop's unwinding assertion at
 *             103 iterations is the obligation (the cap is 100: at most 102 passes);
 *          1: shouldStop(c, old, it, max) returns 1 whenever it > max, for arbitrary centroid contents. */
#include "lsv.h"
#include "matrix.h"
#include "clustering.h"
int shouldStop(matrix *centroids, matrix *oldcentroids, size_t iterations, size_t max_iterations);
#if HP_WHICH==0
unsigned passes;
void getLabels_(matrix *m, matrix *centroids, uivector *labels, int nthreads){ passes++; for(size_t i=0;i<labels->size;i++) labels->data[i]=0; }
void getCentroids(matrix *m, uivector *cluster_labels, matrix **centroids){ for(size_t i=0;i<(*centroids)->row;i++)for(size_t j=0;j<(*centroids)->col;j++) (*centroids)->data[i][j]=nondet_double(); }
int randInt(int low, int high){ int v=nondet_int(); __CPROVER_assume(v>=low && v<high); return v; }
#endif
void harness(void){
#if HP_WHICH==0
  matrix *m; NewMatrix(&m,2,1); m->data[0][0]=in_double(-1e3,1e3); m->data[1][0]=in_double(-1e3,1e3);
  uivector *lab; initUIVector(&lab);
  KMeans(m,1,0,lab,NULL,1);
  CHECK(passes<=102, "k-means ran at most 102 passes (iteration cap 100)");
  CHECK(lab->size==2, "one label per object");
#else
  matrix *c,*o; NewMatrix(&c,2,2); NewMatrix(&o,2,2);
  for(size_t i=0;i<2;i++)for(size_t j=0;j<2;j++){ c->data[i][j]=in_any_double(); o->data[i][j]=in_any_double(); }
  size_t it=(size_t)lsv_i(), mx=(size_t)lsv_i();
  int r=shouldStop(c,o,it,mx);
  CHECK(!(it>mx) || r==1, "shouldStop stops once the iteration count exceeds the cap, whatever the centroids hold");
  CHECK(r==0 || r==1, "shouldStop returns a boolean");
  /* below the cap the loop ends exactly when no centroid coordinate moved by more than the documented ABSOLUTE tolerance 1e-3
   * (coordinates up to 1e9 in magnitude, so that one ulp is far below the tolerance; 0.1 % slack for the rounding of o +- 1e-3) */
  { int small=1, finite=1, within=1, outside=0;
    for(size_t i=0;i<2;i++)for(size_t j=0;j<2;j++){ double a=c->data[i][j], b=o->data[i][j];
      if(!(a==a) || !(b==b)) finite=0;
      if(!(a<=1e9 && a>=-1e9 && b<=1e9 && b>=-1e9)) small=0;
      double d = a>b ? a-b : b-a;
      if(!(d<=1.001e-3)) within=0;
      if(d>=0.999e-3) outside=1; }
    if(it<=mx && small && finite){
      CHECK(r==0 || within, "k-means is declared converged only when every centroid coordinate moved by at most the documented tolerance 1e-3");
      CHECK(r==1 || outside, "k-means keeps iterating only while some centroid coordinate moved by the tolerance or more"); } }
#endif
  WITNESS();
}
