/* C18: KMeans returns after a bounded number of iterations whatever the labelling / centroid steps produce (E-BITS):
 * HP_WHICH 0: the real KMeans loop with getLabels_ and getCentroids HAVOCED (arbitrary labels in range, arbitrary centroid
 *             values including NaN/Inf), random initialiser with an arbitrary generator; the loop's unwinding assertion at
 *             103 iterations is the obligation (the cap is 100: at most 102 passes);
 *          1: shouldStop(c, old, it, max) returns 1 whenever it > max, for arbitrary centroid contents. */
#include "lsv.h"
#include "matrix.h"
#include "clustering.h"
int shouldStop(matrix *centroids, matrix *oldcentroids, size_t iterations, size_t max_iterations);
#if HP_WHICH==0
unsigned passes;
void getLabels_(matrix *m, matrix *centroids, uivector *labels, int nthreads){ passes++; for(size_t i=0;i<labels->size;i++) labels->data[i]=0; }
void getCentroids(matrix *m, uivector *cluster_labels, matrix **centroids){ for(size_t i=0;i<(*centroids)->row;i++)for(size_t j=0;j<(*centroids)->col;j++) (*centroids)->data[i][j]=nondet_double(); }
int randInt(int low, int high){ int v=nondet_int(); __CPROVER_assume(v>=low && v<high); return v; }
#endif
void harness(void){
#if HP_WHICH==0
  matrix *m; NewMatrix(&m,2,1); m->data[0][0]=in_double(-1e3,1e3); m->data[1][0]=in_double(-1e3,1e3);
  uivector *lab; initUIVector(&lab);
  KMeans(m,1,0,lab,NULL,1);
  CHECK(passes<=102, "k-means ran at most 102 passes (iteration cap 100)");
  CHECK(lab->size==2, "one label per object");
#else
  matrix *c,*o; NewMatrix(&c,2,1); NewMatrix(&o,2,1);
  for(size_t i=0;i<2;i++){ c->data[i][0]=in_any_double(); o->data[i][0]=in_any_double(); }
  size_t it=(size_t)lsv_i(), mx=(size_t)lsv_i();
  int r=shouldStop(c,o,it,mx);
  CHECK(!(it>mx) || r==1, "shouldStop stops once the iteration count exceeds the cap, whatever the centroids hold");
  CHECK(r==0 || r==1, "shouldStop returns a boolean");
#endif
  WITNESS();
}
