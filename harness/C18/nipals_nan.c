/* C18: the NIPALS loops on degenerate data (E-BITS, IEEE-exact, PCA on a HP_N x HP_M matrix).
 * HP_WHICH 0 (absorption): from ANY loop-head state whose iterate t holds a NaN, one pass of the real loop leaves a NaN in t
 *             and does not exit: once the convergence value is NaN the loop never terminates.
 *          1 (reachability): for finite data, is the real convergence value (evaluated by the real calcConvergence on the
 *             loop's own arguments through the guarded LSCI_VERIF_PRE_CONV hook) ever NaN within HP_PASSES passes?
 *             Asserted "never NaN"; a counterexample together with absorption is a finite input on which PCA never returns. */
#include "lsv.h"
#include "matrix.h"
#include "pca.h"
#include "memwrapper.h"
static unsigned heads, convs; static int nan_seen, nan_kept=1;
static void loop_head(int site, void *a, void *b, void *c){
  dvector *t=a, *p=b, *to=c; heads++;
#if HP_WHICH==0
  if(heads==1){
    for(size_t i=0;i<t->size;i++) t->data[i]=in_any_double();
    for(size_t i=0;i<p->size;i++) p->data[i]=in_any_double();
    for(size_t i=0;i<to->size;i++) to->data[i]=in_any_double();
    size_t k=in_size(0,HP_N-1); ASSUME(t->data[k]!=t->data[k]);
  } else {
    int has=0; for(size_t i=0;i<t->size;i++) if(t->data[i]!=t->data[i]) has=1;
    CHECK(has, "a NaN in the iterate is still there after the pass (absorbing)");
    WITNESS();                                   /* the second loop head is reachable: the pass did not exit */
    ASSUME(0);                                   /* stop exploring */
  }
#else
#ifdef LSV_REPLAY
  if(heads>HP_PASSES){ CHECK(!nan_seen, "the convergence value is never NaN for finite data (otherwise the loop cannot terminate)"); exit(0); }   /* iteration ceiling of the native run */
#else
  if(heads>HP_PASSES) ASSUME(0);                 /* explore at most HP_PASSES passes */
#endif
#endif
}
static void pre_conv(int site, void *a, void *b){ double v=calcConvergence((dvector*)a,(dvector*)b); convs++; if(v!=v) nan_seen=1; }
void harness(void){
  lsci_verif_loop_head_cb=loop_head; lsci_verif_pre_conv_cb=pre_conv; lsci_verif_nproc=1;
  matrix *x; NewMatrix(&x,HP_N,HP_M);
  for(size_t i=0;i<HP_N;i++)for(size_t j=0;j<HP_M;j++){
#if HP_DYADIC
    /* integer / dyadic data (exact cancellations), as in the property's quantifier */
    long long k=in_int(-8,8); x->data[i][j]=(double)k*0.5;
#else
    x->data[i][j]=in_double(-1e3,1e3);
#endif
  }
#ifdef LSV_EXCL_C18_nipals_nan
  /* known finding: when the data left to explain has no variance (all columns of the deflated matrix are zero or the start
   * column is zero) the iterate is the zero vector and the convergence value is 0/0. Excluded region: the start column
   * (largest variance) of the matrix is not constant-zero after centring, i.e. the data are not rank-deficient for component 1 */
  { int nz=0; for(size_t j=0;j<HP_M;j++){ double s=0; for(size_t i=0;i<HP_N;i++) s+=x->data[i][j]; for(size_t i=0;i<HP_N;i++){ double d=x->data[i][j]*HP_N-s; if(d>=0.25||d<=-0.25) nz=1; } } ASSUME(nz); }
#endif
  PCAMODEL *m; NewPCAModel(&m);
  PCA(x, HP_SC, 1, m, NULL);
#if HP_WHICH==0
  CHECK(0, "a pass that starts with a NaN iterate never exits the loop (PCA cannot return from it)");
#else
  CHECK(!nan_seen, "the convergence value is never NaN for finite data (otherwise the loop cannot terminate)");
  WITNESS();
#endif
}
