#!/bin/bash
# try_seed.sh <patch.diff> <property> [check args...] : apply a seeded change to /repo, run the check, undo the change
P=$1; ID=$2; shift 2
git -C /repo diff --quiet || { echo "/repo has uncommitted changes"; exit 2; }
git -C /repo apply "$P" || exit 2
trap 'git -C /repo checkout -- .' EXIT
cd /verif && LSV_PARTIAL=1 ./check $ID "$@"
echo "check exit code: $?"
