#!/bin/bash
# run_all.sh [quick|thorough] [ids...] : run every claimed check in turn on the current tree, print a summary table
TIER=${1:-quick}; shift
cd /verif
IDS=${@:-$(python3 -c "import json; print(' '.join(c['property_id'] for c in json.load(open('MANIFEST.json'))['checks']))")}
for id in $IDS; do
  s=$(date +%s); out=$(./check $id --tier $TIER 2>&1); rc=$?; e=$(date +%s)
  echo "$id rc=$rc $((e-s))s $(echo "$out" | grep -E "^C[0-9]+ \[" | tail -1)"
  echo "$out" | grep -E "VIOLATION|undecided:|ERROR" | head -5
done
