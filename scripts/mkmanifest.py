#!/usr/bin/env python3
"""regenerate /verif/MANIFEST.json from the table below (kept in one place so it is always valid)"""
import json, os, subprocess
V = os.path.dirname(os.path.dirname(os.path.abspath(__file__)))
hooks_commits = subprocess.run(['git', '-C', '/repo', 'log', '--format=%h %s', '--grep=verif hook', '-i'], capture_output=True, text=True).stdout.strip().splitlines()
CLAIMED = {
    # id: (technique, level text, level note, design ref)
    'C11': ('CBMC symbolic execution of the real kernels -> SMT VC re-interpreted over the reals -> z3 (E-REAL), CBMC SAT for sorting (E-BITS)',
            'bounded, solver-complete inside the bound: for every concrete shape on the grid and ALL real contents the kernel equals its textbook definition; counterexamples are replayed natively (IEEE, ASan/UBSan)',
            'exact real arithmetic stands in for IEEE doubles (rounding is outside the claim); no value equals the MISSING code; shapes on the stated grid only; trusted: cbmc 6.11, z3 5.1, lsv rewriter/slicer',
            'DESIGN.md 5/C11'),
    'C13': ('CBMC bit-precise symbolic execution of the real slicing code with rows and thread count symbolic (SAT); CBMC->real-arithmetic VC->z3 for value equality with the sequential kernels',
            'bounded, solver-complete inside the bound: for ALL rows<=40 and threads<=24 the worker ranges of every slicing site partition [0,rows); for concrete small shapes and all real contents the multithreaded result equals the single-threaded one; index map bijective for all n<=40',
            'workers are run synchronously by a recording pthread model (OS scheduling, libpthread and weak memory are outside); exact reals stand in for doubles in the value obligations; worker-argument struct layouts re-extracted from source each run',
            'DESIGN.md 5/C13'),
    'C14': ('CBMC bit-precise bounded model checking (SAT) of the real container code: every operation history up to the bound from every initial shape, symbolic contents/indices, shadow model + representation invariant after every step',
            'bounded, solver-complete inside the bound: all histories of length <=2 (thorough: <=3 on the core alphabet) over matrix/dvector/uivector/ivector/tensor/list operations with operand lengths 0..4; CBMC memory model decides bounds, use-after-free and double free; counterexamples replayed under ASan/UBSan',
            'allocation never fails (library aborts in xmalloc); strvector not encoded; histories beyond the bound rest on the invariant asserted after every step; trusted: cbmc 6.11 memory model, typed memmove and insertion-sort qsort models',
            'DESIGN.md 5/C14'),
    'C10': ('CBMC symbolic execution of the real MatrixPreprocess/TensorPreprocess -> SMT VC over the reals -> z3 (E-REAL); CBMC SAT bit-precise for MatrixCheck',
            'bounded, solver-complete inside the bound: for every option -1..5, shape on the grid, concrete mask of missing cells and ALL real cell values the stored statistics, the transformed matrix, apply=fit and apply-to-new-rows equal their definitions',
            'exact reals stand in for doubles; scaling statistic >= 0.02 or column constant (property quantifier); column sums inside (-1e-6,1e-6) excluded (documented tolerance of MatrixColAverage)',
            'DESIGN.md 5/C10'),
    'C15': ('CBMC->real-arithmetic VC->z3 for the metric formulas and for ROC/PR with truth vectors and score order types enumerated by the driver; CBMC SAT bit-precise (IEEE) for the perfect-prediction clause',
            'bounded, solver-complete inside the bound: every missing-mask for n<=4, every binary truth vector x strict score order for n<=3 (n=4 partly in quick, n<=5 completely in thorough), all score values within the order; AUC = Mann-Whitney count identity',
            'exact reals except in the IEEE obligations; no score ties; invariances of AUC are consequences of the Mann-Whitney identity; statistic tables not encoded',
            'DESIGN.md 5/C15'),
    'C08': ('CBMC bit-precise (SAT) on LDAPrediction over a symbolic model with the dot-product kernels havoced; CBMC->real-arithmetic VC->z3 for LDA bookkeeping, the discriminant formula and the one-vs-rest ROC summaries, label vectors enumerated by the driver',
            'bounded, solver-complete inside the bound: memory safety, arg-max and label range of the prediction for labels from 0 and from 1 (nclass<=3, features<=2); priors/means/nclass for every label vector with >=2 objects per class up to n=5; AUC=1 for perfect predictions n<=4',
            'kernels havoced (over-approximation) in the index obligations; eigen-decomposition and pseudo-inverse replaced by contract stubs; exact reals for the value obligations; statistical clause (well-separated classes) and affine invariance not decided',
            'DESIGN.md 5/C08'),
    'C05': ('CBMC bit-precise bounded model checking (SAT) of the real cross-validation drivers, workers, group generator and train/test split, with the learners replaced by tagging stubs and the random generator by an arbitrary value',
            'bounded, solver-complete inside the bound: for every data set of n<=5 objects, every user group vector / every random draw sequence, thread counts <=3 and iterations <=2: no model predicts an object it was trained on, train and test parts partition the data, every object is predicted exactly once per iteration and receives its own prediction, residuals use the matching response column',
            'learner internals are other properties; rejection-sampling termination outside the claim; workers synchronous (schedules are C06); reduced generator model (unused id per draw) at the larger sizes',
            'DESIGN.md 5/C05'),
    'C06': ('CBMC bit-precise concurrency model checking (SAT over all sequentially-consistent interleavings, __CPROVER_ASYNC) of the real srand_/rand_/randInt/randDouble with the generator arithmetic abstracted to uninterpreted functions; CBMC SAT on the real validation drivers with tagging stubs for thread-count independence and the seeding protocol',
            'bounded, solver-complete inside the bound: for 2 workers x <=3 draws (3 workers x 1 draw) and ALL seeds and interleavings each worker draws its sequential stream; a seeded stream never consults the clock (one known finding excluded); for thread counts 1..3 the validation structure and the set of seeds consumed are those of the sequential run',
            'sequential consistency; libpthread / OS scheduler / weak memory outside; generator arithmetic uninterpreted in schedule obligations; workers synchronous in the driver obligations',
            'DESIGN.md 5/C06'),
    'C01': ('CBMC symbolic execution of one pass of the real NIPALS loop per component from an arbitrary loop-head state (guarded hook) -> SMT VC over the reals -> z3 nlsat; assert-then-assume chains closed by opaque-variable lemma obligations',
            'bounded, solver-complete inside the bound: for every real data matrix on the shape grid and EVERY loop-head state, the pass that exits yields a unit loading, scores = projection, residual orthogonal to it, the orthogonality invariant step, variance bookkeeping, dmodx; predictors = the training step / the back-transformation, for 1..2 worker threads',
            'one pass from any state + induction replaces whole runs; convergence (hence ordering of variances and the 100 % total) outside; exact reals; scaling -1 for the pass (other options compose with C10 through the single MatrixPreprocess call); nonzero divisors',
            'DESIGN.md 5/C01'),
    'C03': ('CBMC symbolic execution of the real LVCalc (two mandatory passes from arbitrary loop-head states), PLS() assembly with LVCalc havoced, PLSYPredictor and PLSScorePredictor -> SMT VC over the reals -> z3; orthogonality closed by opaque-variable lemma obligations',
            'bounded, solver-complete inside the bound: t = Xw, unit loadings, X and Y deflation, inner relation, the code facts behind score/weight orthogonality (1 response), layout of recalculated responses and residuals for ny<=3 x nlv<=3, predictors for every presence combination of stored means/scales of either sign',
            'one latent variable from any loop state + induction; exact reals; scaling -1 inside PLS(); nonzero divisors; orthogonality facts for >= 2 responses attempted in thorough only',
            'DESIGN.md 5/C03'),
    'C07': ('CBMC symbolic execution of the real MLR / OrdinaryLeastSquares / MatrixInversion / MLRPredictY -> SMT VC over the reals -> z3 nlsat',
            'bounded, solver-complete inside the bound: for every real X (3 objects x 1 predictor in quick; up to 5x2 in thorough) and 1..2 responses the normal equations hold (residuals sum to zero and are orthogonal to every predictor), fitted values and predictions are intercept + x.b, R2 = 1 - RSS/TSS, SDEC = sqrt(RSS/n)',
            'exact reals (rounding, conditioning outside); equivariance and exact recovery are consequences of the normal equations for full-rank designs; R2 within [0,1] follows from orthogonality; two-predictor designs (3x3 inverse) may stay undecided',
            'DESIGN.md 5/C07'),
    'C12': ('CBMC->real-arithmetic VC->z3 for MatrixInversion, SolveLSE, MatrixDeterminant, OrdinaryLeastSquares; CBMC SAT (bit-precise memory model) for the LAPACK wrappers with contract stubs',
            'bounded, solver-complete inside the bound: M M^-1 = M^-1 M = I for every non-singular 2x2 (3x3 thorough) including zero leading entries; A x = b for n<=2 with a re-used solution vector; determinant = Leibniz sum n<=3(4); normal equations; wrappers memory-safe with conformable outputs for square n<=3 and 3x2 / 2x3',
            'LAPACK numerics replaced by contract stubs; exact reals; SolveLSE entries of magnitude in (0,1e-3) excluded (absolute 1e-4 pivot tests); Penrose conditions and multiplicativity not decided',
            'DESIGN.md 5/C12'),
    'C19': ('CBMC->real-arithmetic VC->z3 for the spline coefficient contracts, the piece lookup and the trapezoid area; CBMC SAT bit-precise with the objective as an uninterpreted function for the simplex',
            'bounded, solver-complete inside the bound: for 3..4 knots (5 thorough) with ANY strictly increasing abscissae (gaps 1e-4..1e4) and ordinates: interpolation, C1, C2, natural ends, straight lines, evaluation with the right piece at any scale; area = trapezoid sum and additive n<=5; simplex d<=2, <=2 iterations, ANY deterministic objective: reported value = f(returned point) <= best initial vertex, iteration cap respected',
            'exact reals for spline/area; convergence of the simplex to the minimiser not decided; objective values not NaN',
            'DESIGN.md 5/C19'),
    'C18': ('CBMC bit-precise bounded model checking (SAT, IEEE doubles): k-means loop unwound past its cap with the labelling/centroid steps havoced, simplex with an uninterpreted objective, and the NIPALS NaN-absorption step from an arbitrary loop-head state through the guarded hooks',
            'bounded, solver-complete inside the bound: k-means (2 objects, any step results incl. NaN) and the simplex (d<=2, any deterministic objective) stop within their iteration caps; for PCA 2x2 EVERY loop state containing a NaN keeps the NaN and cannot exit (the non-termination mechanism); the finite input that reaches that state is a listed known finding re-run natively',
            'known finding C18_nipals_nan (PCA/PLS/CPCA never return on data without residual variance) is recorded, not repaired; termination on regular data and finiteness of leading components are limit statements, not decided; PLS/CPCA loops not encoded',
            'DESIGN.md 5/C18'),
    'C20': ('own encoder: Python ast of the binding modules + clang 14 record layouts and LLVM IR of the current headers -> z3 bit-vector queries (field images, SysV register images of scalar parameters) plus structural comparison',
            'complete for the current tree: every ctypes.Structure field (order, offset, width, kind, pointer depth, pointee) and every lsci.<f>.argtypes/restype (arity, register class, width, pointer depth, return kind) is compared with the C side; a z3 query per field/scalar parameter asks for an image/value read differently by the two sides',
            'LP64 SysV x86-64; ctypes natural alignment; field names are not compared (free in ctypes); trusted: clang layouts, python ast, z3',
            'DESIGN.md 5/C20'),
    'C17': ('CBMC bit-precise bounded model checking (SAT) of the real MDC and MaxDis_Fast selection logic with the distance kernels havoced; CBMC->real-arithmetic VC->z3 for one k-means step',
            'bounded, solver-complete inside the bound: for 3..4 objects, every selection size, every distance table (arbitrary non-negative): requested count, distinct, in range; MaxDis_Fast: every further element maximises the minimum tabled distance; k-means step: labels in range and nearest, centroids = member means for every label vector',
            'distances are an over-approximation (havoc), so metric-specific float behaviour and "first = farthest from centroid" are outside; MaxDis, k-means++ and convergence not decided (measured out of reach or limit statements)',
            'DESIGN.md 5/C17'),
    'C09': ('CBMC symbolic execution of one pass of the real CPCA loop from an arbitrary super score (guarded hook) and of CPCAScorePredictor on a symbolic model -> SMT VC over the reals -> z3 nlsat',
            'bounded, solver-complete inside the bound: 2 blocks (widths 1..2), 2..3 objects: unit super weights, super score = block scores x super weights, block loadings = E_b\'t/t\'t, scaling factor = sqrt(width), total variance bookkeeping; the predictor performs the training step for stored averages/scalings of either sign',
            'converged equality with the PCA of the block-scaled concatenation is a limit statement, not decided; block explained variances rest on the Pythagoras lemma; exact reals',
            'DESIGN.md 5/C09'),
    'C04': ('CBMC symbolic execution of the real PLSBetasCoeff / PLSScorePredictor / PLSYPredictor on a symbolic model and of LVCalc from the invariant loop-head state -> SMT VC over the reals -> z3 nlsat',
            'bounded, solver-complete inside the bound: for every x the coefficient form predicts what the score-based predictor predicts (1..2 latent variables, 2..3 predictors); one latent variable lowers the residual sum of squares by exactly b^2 t\'t (never increases it); inner relation b = u\'t/t\'t',
            'the OLS limit at full rank and equivariance (two-run query) are NOT decided in quick; structural facts p_k.w_k=1, p_i.w_j=0 (i>j) assumed on the symbolic model (C03); exact reals',
            'DESIGN.md 5/C04'),
    'C02': ('CBMC symbolic execution of the real PCA loop with the guarded hooks (start state, two passes from an arbitrary state with the real calcConvergence, exact-fixed-point pass) -> SMT VC over the reals -> z3',
            'bounded, solver-complete inside the bound for the decidable clauses only: the iteration starts from the column of largest variance; a component is left only when the documented criterion (as computed by the real calcConvergence) is below 1e-10 and not otherwise; an exact fixed point of the pass is an eigenpair of E\'E with explained variance eigenvalue/trace*100',
            'NOT decided: convergence to the k-th largest eigenpair, accuracy implied by the tolerance, rotation/permutation equivariance (limit statements of a floating-point iteration; two-run queries); exact reals; n,m <= 3',
            'DESIGN.md 5/C02'),
}
NA = {
    'C16': 'behaviour lives inside SQLite and libc decimal formatting (FFI + file I/O); nothing of it is source in /repo that could be executed symbolically - an encoding would verify a hand-written SQL fake, not the code',
}
PENDING = 'check not built yet in this revision of /verif (design in DESIGN.md section 5); not claimed until its obligations run'
ALL = ['C%02d' % i for i in range(1, 21)]
checks = []
for pid in ALL:
    if pid in CLAIMED:
        tech, text, note, ref = CLAIMED[pid]
        checks.append({
            'property_id': pid,
            'quick_cmd': f'./check {pid} --tier quick',
            'thorough_cmd': f'./check {pid} --tier thorough',
            'evidence_file': f'/verif/evidence/{pid}.json',
            'replay_cmd_template': './check --replay {path}',
            'engine': 'lsv',
            'level_claimed': {'category': 'model_checking', 'text': text, 'design_ref': ref},
            'level_note': note,
            'technique': tech,
        })
na = [{'property_id': p, 'reason': NA.get(p, PENDING)} for p in ALL if p not in CLAIMED]
m = {
    'version': 1,
    'setup_cmd': 'python3 -c "import sys; sys.path.insert(0, \'/verif\'); import lsv.core, lsv.real" && cbmc --version && z3-new --version',
    'hooks': {
        'guard': 'LIBSCIENTIFIC_VERIF',
        'enable': 'every check compiles /repo/src/*.c with goto-cc (and gcc for native replays) passing -DLIBSCIENTIFIC_VERIF',
        'baseline_off_cmd': '/verif/scripts/baseline_off.sh',
        'source_commits': [c.split()[0] for c in hooks_commits],
        'add_only': True,
    },
    'engines': [{'name': 'lsv', 'path': '/verif/lsv', 'serves_properties': sorted(CLAIMED), 'kind_free_text': 'driver around cbmc 6.11 (E-BITS: SAT, bit-precise) and cbmc --smt2 VC export -> FloatingPoint-to-Real rewriter -> z3 (E-REAL); harnesses in /verif/harness are linked against goto-cc builds of the real /repo/src translation units on every run'}],
    'checks': checks,
    'not_applicable': na,
    'notes': 'Solver-based checking of the real code. Every obligation = harness x concrete shape/case, contents symbolic; verdicts: holds (UNSAT + reachability witness SAT), violated (SAT, replayed natively), undecided (timeout/unknown, never counted as success). Known findings: /verif/known_findings.txt.',
}
json.dump(m, open(os.path.join(V, 'MANIFEST.json'), 'w'), indent=1)
print('MANIFEST.json written:', len(checks), 'checks,', len(na), 'not_applicable')
