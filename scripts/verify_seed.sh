#!/bin/bash
# verify_seed.sh <worktree> : confirm a seeded change (worktree/seed_out/{patch.diff,demo.c}) independently:
#  unchanged tree: demo exits 0; changed tree: builds, the 62 baseline tests are still reported OK, demo exits non-zero.
# Prints a JSON summary on the last line. Leaves the worktree clean (patch not applied).
WT=$1; OUT=$WT/seed_out
cd $WT || exit 2
git checkout -q -- . ; git apply --check $OUT/patch.diff || { echo '{"ok":false,"why":"patch does not apply"}'; exit 1; }
build(){ cmake -G Ninja -S . -B _vb -DCMAKE_BUILD_TYPE=RelWithDebInfo -DCMAKE_C_FLAGS=-Wno-error -DCMAKE_INSTALL_PREFIX=$WT/_vinst >/dev/null 2>&1 && cmake --build _vb -j8 >/dev/null 2>&1; }
demo(){ gcc -I src -I _vb $OUT/demo.c -o _vb/demo -L _vb/src -lscientific -lm -lpthread -Wl,-rpath,$WT/_vb/src 2>/dev/null || return 99; timeout 300 ./_vb/demo >_vb/demo.out 2>&1; return $?; }
rm -rf _vb; build || { echo '{"ok":false,"why":"clean build failed"}'; exit 1; }
demo; d0=$?
git apply $OUT/patch.diff
build || { git checkout -q -- .; echo '{"ok":false,"why":"changed build failed"}'; exit 1; }
demo; d1=$?
tail -3 _vb/demo.out > _vb/demo.tail
cd _vb/src/tests
ls | grep '^test' | grep -v '\.' | xargs -P 8 -I{} bash -c 'timeout 1800 ./{} > ../../{}.out 2>&1'
# some executables draw random data and abort now and then on the unchanged tree too (testmatrix): give them two more tries
for rep in 1 2; do for t in testmatrix; do timeout 1800 ./$t >> ../../$t.out 2>&1; done; done
cd $WT
python3 - "$WT/_vb" /verif/scripts/baseline_names.json $d0 $d1 <<'PY'
import sys, glob, json, re
w, names, d0, d1 = sys.argv[1], json.load(open(sys.argv[2])), int(sys.argv[3]), int(sys.argv[4])
ok = set()
for f in glob.glob(w + '/test*.out'):
    for ln in open(f, errors='replace'):
        m = re.match(r'^(.*?)\s*:\s*OK\b', ln.strip())
        if m: ok.add(m.group(1).strip())
missing = [n for n in names if n not in ok]
print(json.dumps({'ok': d0 == 0 and d1 != 0 and not missing, 'demo_unchanged_rc': d0, 'demo_changed_rc': d1, 'baseline_tests_ok': len(names) - len(missing), 'missing': missing, 'demo_tail': open(w + '/demo.tail', errors='replace').read()[-300:]}))
PY
git checkout -q -- .; rm -rf _vb _vinst
