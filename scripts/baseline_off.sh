#!/bin/bash
# Build /repo WITHOUT the verification guard in a scratch dir, run every test executable and compare the
# tests reported "<name>: OK" with the pinned baseline list (scripts/baseline_names.json, 62 names).
# usage: baseline_off.sh [extra C flags]     exit 0 iff every baseline test is reported OK
set -u
HERE=$(cd "$(dirname "$0")" && pwd)
mkdir -p /verif/.work
W=$(mktemp -d /verif/.work/baseline.XXXXXX)
trap 'rm -rf "$W"' EXIT
EXTRA="${1:-}"
cmake -G Ninja -S /repo -B "$W/b" -DCMAKE_BUILD_TYPE=RelWithDebInfo -DCMAKE_C_FLAGS="-Wno-error $EXTRA" -DCMAKE_INSTALL_PREFIX="$W/inst" >"$W/cmake.log" 2>&1 || { cat "$W/cmake.log"; echo "BASELINE configure failed"; exit 2; }
cmake --build "$W/b" -j16 >"$W/build.log" 2>&1 || { tail -50 "$W/build.log"; echo "BASELINE build failed"; exit 2; }
cd "$W/b/src/tests"
run_one(){ t=$1; timeout 1800 ./$t >"$W/$t.out" 2>&1; echo "$? $t" >"$W/$t.rc"; }
export -f run_one; export W
ls | grep '^test' | grep -v '\.' | xargs -P 8 -I{} bash -c 'run_one {}' 2>/dev/null
cat "$W"/*.rc | sort -k2 | tr '\n' ';'; echo
python3 - "$W" "$HERE/baseline_names.json" <<'PY'
import sys, glob, json, re
w, names = sys.argv[1], json.load(open(sys.argv[2]))
ok = set()
for f in glob.glob(w + '/*.out'):
    for ln in open(f, errors='replace'):
        ln = ln.strip()
        if ln.endswith(': OK') or ln.endswith(':OK'):
            ok.add(re.sub(r'\s*:\s*OK$', '', ln).strip())
        m = re.match(r'^(.*?):\s*OK\b', ln)
        if m: ok.add(m.group(1).strip())
missing = [n for n in names if n not in ok]
print('baseline_off: %d/%d baseline tests reported OK' % (len(names) - len(missing), len(names)))
for n in missing: print('MISSING', n)
sys.exit(1 if missing else 0)
PY
