#!/usr/bin/env python3
"""keep_seed.py <name> <property> <worktree> [--patch alt.diff] [--] [check args...]
Store a confirmed seeded change under /verif/seeded/<name>/ (patch.diff, demo.c, README.md, meta.json) and record what the
check for <property> reports on it (applied to /repo, check run, change undone straight afterwards)."""
import sys, os, json, shutil, subprocess, re, time
a = sys.argv[1:]
name, prop, wt = a[0], a[1], a[2]
rest = a[3:]
patch = os.path.join(wt, 'seed_out', 'patch.diff')
if rest and rest[0] == '--patch': patch = rest[1]; rest = rest[2:]
if rest and rest[0] == '--': rest = rest[1:]
d = os.path.join('/verif/seeded', name); os.makedirs(d, exist_ok=True)
if os.path.abspath(patch) != os.path.join(d, 'patch.diff'): shutil.copy(patch, os.path.join(d, 'patch.diff'))
for f in ('demo.c', 'README.md'):
    p = os.path.join(wt, 'seed_out', f)
    if os.path.exists(p): shutil.copy(p, os.path.join(d, f))
orig = os.path.join(wt, 'seed_out', 'patch.diff')
if os.path.abspath(patch) != os.path.abspath(orig) and os.path.exists(orig): shutil.copy(orig, os.path.join(d, 'patch.as_delivered.diff'))
verify = {}
vf = wt.rstrip('/') + '.verify'
if os.path.exists(vf):
    try: verify = json.loads(open(vf).read().strip().splitlines()[-1])
    except Exception: verify = {'raw': open(vf).read()[-500:]}
t0 = time.time()
r = subprocess.run(['/verif/scripts/try_seed.sh', os.path.join(d, 'patch.diff'), prop] + rest, capture_output=True, text=True)
out = r.stdout + r.stderr
viol = [l.strip() for l in out.splitlines() if l.startswith('VIOLATION')]
detail = [l.strip()[:300] for l in out.splitlines() if l.strip().startswith('violated:')][:6]
m = re.search(r'check exit code: (\d+)', out)
summary = [l for l in out.splitlines() if re.match(r'^C\d+ \[', l)]
readme = ''
if os.path.exists(os.path.join(d, 'README.md')): readme = open(os.path.join(d, 'README.md')).read()
meta = {
    'seed': name, 'breaks_property': prop,
    'needs_to_manifest': ' '.join(readme.split())[:1200],
    'independently_confirmed': verify,
    'confirmation_procedure': 'scripts/verify_seed.sh <scratch worktree>: clean build, demo must exit 0; apply patch, rebuild, the 62 baseline tests must still be reported OK, demo must exit non-zero',
    'check_run': {'cmd': f'git -C /repo apply seeded/{name}/patch.diff; ./check {prop} ' + ' '.join(rest) + '; git -C /repo checkout -- .', 'exit_code': int(m.group(1)) if m else None,
                  'violation_lines': len(viol), 'first_violations': detail, 'summary': summary[-1:] , 'seconds': round(time.time() - t0, 1)},
    'caught': bool(viol),
}
json.dump(meta, open(os.path.join(d, 'meta.json'), 'w'), indent=1)
print(name, 'caught' if viol else 'MISSED', meta['check_run']['summary'], verify.get('ok'))
