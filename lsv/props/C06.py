"""C06 — validation results are deterministic under every thread schedule and count (E-BITS concurrency + protocol)."""
from ..core import Ob
TN = ['numeric', 'vector', 'matrix', 'memwrapper', 'interpolate', 'algebra']
META = dict(
    functions=['LeaveOneOut', 'KFoldCV', 'BootstrapRandomGroupsCV', 'random_kfold_group_generator', 'kfold_group_train_test_split', 'MLRLOOModel_', 'LDALOOModel_', 'MLRRandomGroupCVModel', 'srand_', 'rand_', 'randInt', 'randDouble', 'generate_seed (UF in schedule obligations)', 'xorshift128 (UF in schedule obligations)'],
    bounds='validation drivers: n=4 objects, thread counts 1..3 (thorough 5), bootstrap iterations 2 (thorough <=4) with thread counts dividing them; generator: 2 workers x (seed + <=3 draws), 3 workers x (seed + 1 draw), seeds symbolic, every sequentially-consistent interleaving; sequential reproducibility with the concrete generator arithmetic: 2 seeds',
    outside='libpthread, the OS scheduler, weak memory models, more than 3 workers / 3 draws',
    stubs=['generate_seed/xorshift128: uninterpreted functions (schedule obligations only)', 'time(): constant'],
    assumptions=['sequential consistency'],
)


def obligations(tier):
    obs = []
    th = tier == 'thorough'
    to = 300 if not th else 1800
    for (w, d) in ([(2, 1), (2, 2), (3, 1)] if not th else [(2, 1), (2, 2), (2, 3), (3, 1), (3, 2)]):
        obs.append(Ob(id=f'rng_schedule/w{w}d{d}', harness='C06/rng_schedule.c', tus=TN, defs={'HP_W': w, 'HP_D': d}, engine='bits', unwind=4, timeout=to, std_checks=False,
                      clause='the stream of one worker is never perturbed by another', remove=('generate_seed', 'xorshift128'), stubs=('sym_rng_uf.c',)))
    for d in ((1, 2) if not th else (1, 2, 3)):
        obs.append(Ob(id=f'rng_repro/d{d}', harness='C06/rng_repro.c', tus=TN, defs={'HP_D': d}, engine='bits', unwind=6, timeout=to, clause='bit-identical between repeated runs', kf='C06_zero_state'))
    from . import C05 as _C05
    for (it, t) in ([(1, 1), (2, 2), (2, 1)] if not th else [(1, 1), (2, 2), (2, 1), (3, 3), (4, 2)]):
        obs.append(Ob(id=f'caller_stream/bootstrap/it{it}t{t}', harness='C06/caller_stream.c', tus=_C05.T, defs={'HP_IT': it, 'HP_T': t}, engine='bits', unwind=12, timeout=to,
                      clause='no worker (and no inline work) perturbs the calling thread\'s seeded stream', remove=('MLR', 'MLRPredictY', 'PLS', 'PLSYPredictorAllLV', 'LDA', 'LDAPrediction', 'EPLSRandomGroupCVModel', 'EPLSLOOModel_', 'YScrambling'),
                      ignore_props=('random_kfold_group_generator.unwind',), object_bits=11))
    # thread-count independence of the validation structure: the real drivers with tagging learner stubs (harness shared with C05);
    # the stub's prediction is a function of the test object only, so the N-thread result equals the sequential one iff every object is
    # predicted by a model trained on exactly the other objects of its fold, for every thread count
    from . import C05
    def cv(id, defs, unwind, ignore=(), timeout=None, flags=()):
        d = dict(defs); d.setdefault('HP_XC', 1)
        obs.append(Ob(id=id, harness='C05/cv.c', tus=C05.T, defs=d, engine='bits', unwind=unwind, timeout=timeout or to, flags=flags, clause='a run with N threads equals the sequential run', remove=C05.REMOVE,
                      stubs=('sym_pthread_sync.c',), ignore_props=ignore, object_bits=11))
    for t in ((1, 2, 3) if not th else (1, 2, 3, 4, 5)):
        for algo, an in ((0, 'mlr'), (2, 'lda')):
            if not th and algo == 2 and t != 2: continue
            cv(f'threads/loo/{an}/n4t{t}', {'HP_CV': 0, 'HP_ALGO': algo, 'HP_N': 4, 'HP_NY': 1, 'HP_T': t, 'HP_NLV': 1, 'HP_G': 1}, 8)
        cv(f'threads/kfold/mlr/n4t{t}/groups0120', {'HP_CV': 1, 'HP_ALGO': 0, 'HP_N': 4, 'HP_NY': 1, 'HP_T': t, 'HP_NLV': 1, 'HP_G': 3, 'HP_GROUPS': '0,1,2,0'}, 8)
    for (it, t) in ([(2, 1), (2, 2)] if not th else [(2, 1), (2, 2), (3, 1), (3, 3)]):      # one round per worker only: with several rounds CBMC reports the end of this harness unreachable although the native run completes (not understood; several rounds are covered by seed_protocol/* below)
        cv(f'threads/bootstrap/mlr/n4g2it{it}t{t}', {'HP_CV': 2, 'HP_ALGO': 0, 'HP_N': 4, 'HP_NY': 1, 'HP_T': t, 'HP_NLV': 1, 'HP_G': 2, 'HP_IT': it, 'HP_RNG_DISTINCT': 1}, 8)
        if t > 1:      # the same call with one thread consumes the same multiset of seeds (two runs in one query: smallest data set)
            cv(f'threads/bootstrap_seeds/mlr/n2g1it{it}t{t}', {'HP_CV': 2, 'HP_ALGO': 0, 'HP_N': 2, 'HP_NY': 1, 'HP_T': t, 'HP_NLV': 1, 'HP_G': 1, 'HP_IT': it, 'HP_RNG_DISTINCT': 1, 'HP_SEEDCMP': 1}, 18)
    # seed protocol across thread counts with several rounds per worker (workers not run: recording pthread model)
    from . import C05 as _C05
    for (it, t) in ([(2, 2), (4, 2), (6, 3), (6, 2), (3, 3)] if not th else [(2, 2), (4, 2), (6, 3), (6, 2), (3, 3), (8, 4), (8, 2), (9, 3), (12, 4)]):
        obs.append(Ob(id=f'seed_protocol/it{it}t{t}', harness='C06/seed_protocol.c', tus=_C05.T, defs={'HP_IT': it, 'HP_T': t}, engine='bits', unwind=max(it, 6) + 2, timeout=to,
                      clause='a run with N threads consumes the seeds of the sequential run', object_bits=11))
    return obs
