"""C18 — model fitting terminates with finite leading components on degenerate data (E-BITS, IEEE-exact)."""
from ..core import Ob
T = ['matrix', 'vector', 'memwrapper', 'numeric', 'algebra', 'tensor', 'list', 'interpolate', 'preprocessing', 'pca', 'clustering', 'metricspace', 'optimization', 'statistic']
META = dict(
    functions=['KMeans', 'shouldStop', 'NelderMeadSimplex', 'PCA', 'calcConvergence', 'MatrixPreprocess', 'DVectNorm', 'MT_MatrixDVectorDotProduct', 'MT_DVectorMatrixDotProduct'],
    bounds='k-means: 2 objects x 1 variable, 1 cluster, labelling/centroid steps havoced, 103 unwindings of the loop; shouldStop: 2x1 centroids of any content; simplex: d<=2, <=2 iterations (shared with C19); PCA: 2x2 (3x2 thorough) dyadic data in [-4,4], <=2 passes, scaling 0',
    outside='termination of the NIPALS loops on regular data (a statement about the limit of the iteration); PLS and CPCA loops (same exit structure as PCA, not encoded); more passes / larger shapes',
    stubs=['getLabels_/getCentroids havoced in the k-means cap obligation', 'LSCI_VERIF_LOOP_HEAD / LSCI_VERIF_PRE_CONV hooks', 'sqrt: CBMC IEEE model'],
    assumptions=[],
)


def obligations(tier):
    obs = []
    th = tier == 'thorough'
    obs.append(Ob(id='kmeans/iteration_cap', harness='C18/kmeans_cap.c', tus=T, defs={'HP_WHICH': 0}, engine='bits', unwind=6, timeout=900, clause='k-means returns after a bounded number of iterations',
                  remove=('getLabels_', 'getCentroids', 'randInt', 'KMeansppCenters', 'MDC', 'MaxDis', 'MaxDis_Fast', 'HierarchicalClustering', 'KMeansRandomGroupsCV', 'KMeansJumpMethod'), stubs=('sym_bits_env.c',),
                  unwindset=('@clustering|KMeans|while\\s*\\(\\s*shouldStop|103',), unwind_goal=('KMeans.unwind',), object_bits=12))
    obs.append(Ob(id='kmeans/shouldstop', harness='C18/kmeans_cap.c', tus=T, defs={'HP_WHICH': 1}, engine='bits', unwind=6, timeout=300, clause='k-means returns after a bounded number of iterations', stubs=('sym_bits_env.c',)))
    from . import C19, C03
    for o in C03.obligations(tier):
        if o.id.startswith('lv_start/'):
            o.clause = 'PLS: a constant response is not chosen as start vector (which would make the iteration NaN)'; obs.append(o)
    for o in C19.obligations(tier):
        if o.id.startswith('simplex/'):
            o.clause = 'simplex returns after a bounded number of iterations'; obs.append(o)
    for (n, m) in ([(2, 2)] if not th else [(2, 2), (3, 2)]):
        obs.append(Ob(id=f'nipals/absorption/pca{n}x{m}', harness='C18/nipals_nan.c', tus=T, defs={'HP_WHICH': 0, 'HP_N': n, 'HP_M': m, 'HP_SC': -1, 'HP_DYADIC': 0, 'HP_PASSES': 1}, engine='bits', unwind=8, timeout=600,
                      clause='NaN state of the NIPALS loop is absorbing (non-termination mechanism)', stubs=('sym_bits_env.c', 'sym_pthread_sync.c'), object_bits=10))
        if (n, m) == (2, 2):
            # the finding: a finite (constant-column) input reaches the NaN state in the first pass. The reachability query itself is a
            # bit-precise SAT problem that did not finish within 900 s in this harness (55 s in the design probe); the recorded witness
            # input is re-run natively on every run, the universally quantified half (absorption) is the solver obligation above
            obs.append(Ob(id=f'nipals/nan_reached/pca{n}x{m}', harness='C18/nipals_nan.c', tus=T, defs={'HP_WHICH': 1, 'HP_N': n, 'HP_M': m, 'HP_SC': 0, 'HP_DYADIC': 1, 'HP_PASSES': 50}, engine='native', timeout=120,
                          clause='the convergence value is never NaN on finite data', kf='C18_nipals_nan', kf_witness=True, native_inputs=('i 2', 'i 2', 'i 2', 'i 2')))
    return obs
