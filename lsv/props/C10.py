"""C10 — centring/scaling does what each option promises and is reproducible on new data (E-REAL + E-BITS MatrixCheck)."""
from ..core import Ob
T = ['matrix', 'vector', 'memwrapper', 'numeric', 'algebra', 'tensor', 'list', 'interpolate', 'preprocessing']
META = dict(
    functions=['MatrixPreprocess', 'TensorPreprocess', 'MatrixCheck', 'MatrixColAverage', 'MatrixColSDEV', 'MatrixColRMS', 'MatrixColumnMinMax', 'DVectorCopy', 'DVectorAppend'],
    bounds='rows 2..4 x cols 1..2 concrete, options -1..5, concrete masks of MISSING-coded cells (every single cell and some pairs), all other values symbolic in [-1e6,1e6]; scaling statistic >= 0.02 in magnitude or column constant; tensors of 1..2 blocks',
    outside='rounding error; columns whose scaling statistic lies strictly between 0 and 0.02; column sums strictly inside (-1e-6,1e-6) other than 0 (MatrixColAverage reports them as 0); matrices beyond the grid',
    stubs=['sqrt = exact real root (uninterpreted + axioms)', '__builtin_isfinite = 1 in E-REAL (NaN/Inf handling decided bit-precisely in the MatrixCheck obligation)'],
    assumptions=['nonzero divisors only where the code divides by a value it has not tested against its threshold (none here)'],
)


def obligations(tier):
    obs = []
    th = tier == 'thorough'
    to = 120 if not th else 900
    shapes = [(2, 1), (3, 1), (3, 2)] + ([(4, 1), (4, 2)] if th else [])
    for (m, c) in shapes:
        for typ in (-1, 0, 1, 2, 3, 4, 5):
            masks = [0]
            if typ >= 0 and m >= 3: masks += [1 << k for k in range(m * c)] if (th or c == 1) else [1, 1 << (m * c - 1)]
            if typ >= 0 and m >= 4 and th: masks += [3, 1 | (1 << (m * c - 1))]
            for mask in masks:
                for const in ((0, 1) if typ >= 0 and mask == 0 else (0,)):
                    if typ < 0 and mask: continue
                    obs.append(Ob(id=f'preprocess/opt{typ}/{m}x{c}/mask{mask}/{"const" if const else "spread"}', harness='C10/preprocess.c', tus=T,
                                  defs={'HP_M': m, 'HP_C': c, 'HP_TYPE': typ, 'HP_MASK': mask, 'HP_CONST': const}, engine='real', unwind=8, timeout=to,
                                  clause='option promise / stored statistics / apply = fit / missing cells', stubs=('sym_real_env.c',), real={'nomissing': True}, kf='C10_apply_missing' if mask else ''))
    for typ in (0, 1, 2, 3, 4, 5):
        for (m, c) in ([(3, 1)] if not th else [(3, 1), (3, 2), (4, 1)]):
            obs.append(Ob(id=f'apply_equals_fit_any_scale/opt{typ}/{m}x{c}', harness='C10/preprocess.c', tus=T, defs={'HP_M': m, 'HP_C': c, 'HP_TYPE': typ, 'HP_MASK': 0, 'HP_CONST': 0, 'HP_APPLYONLY': 1},
                          engine='real', unwind=8, timeout=to, clause='apply(stored) = fit for every value of the scaling statistic (no spread assumption)', stubs=('sym_real_env.c',), real={'nomissing': True}))
    for off in (('16777216.0', '134217728.0') if not th else ('16777216.0', '-50331648.0', '134217728.0')):
        for m in ((2,) if not th else (2, 3)):
            obs.append(Ob(id=f'ieee_offset/sdev/n{m}/off{off}', harness='C10/ieee_offset.c', tus=T, defs={'HP_M': m, 'HP_OFFSET': off, 'HP_PRE': 0}, engine='bits', unwind=8, timeout=300 if not th else 1800,
                          clause='column spread statistic in IEEE arithmetic on offset data', stubs=('sym_bits_env.c', 'sym_sqrt_axioms_bits.c'), object_bits=10))
    for (m, c) in [(2, 2), (3, 1)]:
        obs.append(Ob(id=f'matrixcheck/{m}x{c}', harness='C10/misc.c', tus=T, defs={'HP_WHICH': 0, 'HP_M': m, 'HP_C': c, 'HP_O': 1, 'HP_TYPE': 0}, engine='bits', unwind=6, timeout=to, clause='NaN/Inf become MISSING', stubs=('sym_bits_env.c',)))
    for o in (1, 2):
        for typ in ((0, 4, 5) if not th else (-1, 0, 1, 4, 5)):      # quick: option 1 was measured undecided at 120 s on the final run      # options 2 and 3 (and 1 at the thorough timeout) were measured undecided at 900 s for tensors
            obs.append(Ob(id=f'tensor/opt{typ}/o{o}', harness='C10/misc.c', tus=T, defs={'HP_WHICH': 1, 'HP_M': 3, 'HP_C': 1 if o == 2 else 2, 'HP_O': o, 'HP_TYPE': typ}, engine='real', unwind=8, timeout=to,
                          clause='tensor = blockwise', stubs=('sym_real_env.c',), real={'nomissing': True}))
    return obs
