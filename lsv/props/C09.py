"""C09 — CPCA super scores / block scores / projection (E-REAL one-pass obligations)."""
from ..core import Ob
T = ['matrix', 'vector', 'memwrapper', 'numeric', 'algebra', 'tensor', 'list', 'interpolate', 'preprocessing', 'pca', 'cpca', 'statistic', 'metricspace']
META = dict(
    functions=['CPCA', 'CalcBlockLoadings', 'CPCAScorePredictor', 'TensorPreprocess', 'DVectNorm', 'MT_MatrixDVectorDotProduct', 'MatrixTranspose', 'TensorAppendMatrix', 'getMatrixColumn'],
    bounds='2 blocks of widths 1..2, 2..3 objects, one pass of the real loop from an arbitrary super score (1 component); predictor: 1..2 components, stored averages/scalings symbolic of either sign',
    outside='converged equality with the PCA scores of the block-scaled concatenation (a limit statement), block explained variances (cumulative, monotone: rest on the Pythagoras lemma of C01, not separately queried), more than 2 blocks, rounding',
    stubs=['calcConvergence forced', 'LSCI_VERIF_LOOP_HEAD hook overwrites the super score', 'sqrt exact real root'],
    assumptions=['nonzero divisors', 'no MISSING-coded value'],
)


def obligations(tier):
    obs = []
    th = tier == 'thorough'
    to = 120 if not th else 900
    R = ('sym_real_env.c', 'sym_pthread_sync.c')
    for (n, w0, w1) in ([(2, 1, 1), (2, 2, 1)] if not th else [(2, 1, 1), (2, 2, 1), (3, 2, 2), (3, 1, 2)]):
        obs.append(Ob(id=f'pass/n{n}w{w0}{w1}', harness='C09/cpca.c', tus=T, defs={'HP_WHICH': 0, 'HP_N': n, 'HP_W0': w0, 'HP_W1': w1, 'HP_NPC': 1, 'HP_BSW': 2 if th else 1}, engine='real', unwind=8, timeout=to,
                      clause='one pass: unit super weights, super score = block scores x weights, block loadings, scaling factors, total variance', remove=('calcConvergence',), stubs=R, real={'nomissing': True}))
    for (n, w0, w1, npc) in ([(2, 1, 1, 1), (2, 2, 1, 1), (2, 2, 1, 2)] if not th else [(2, 1, 1, 1), (2, 2, 1, 1), (2, 2, 1, 2), (3, 2, 2, 2)]):
        obs.append(Ob(id=f'predictor/n{n}w{w0}{w1}npc{npc}', harness='C09/cpca.c', tus=T, defs={'HP_WHICH': 1, 'HP_N': n, 'HP_W0': w0, 'HP_W1': w1, 'HP_NPC': npc}, engine='real', unwind=8, timeout=to,
                      clause='projection: the training step on stored loadings/weights', remove=('calcConvergence',), stubs=R, real={'nomissing': True}))
    return obs
