"""C17 — object selection and k-means return valid, optimal-by-construction results (E-BITS, at the edge of reach)."""
from ..core import Ob
T = ['matrix', 'vector', 'memwrapper', 'numeric', 'algebra', 'tensor', 'list', 'interpolate', 'metricspace', 'clustering', 'statistic']
META = dict(
    functions=['MDC', 'MaxDis_Fast', 'MaxDis (first pick)', 'getLabels', 'getLabels_', 'getCentroids', 'shouldStop (convergence rule: absolute tolerance 1e-3 on every centroid coordinate)', 'UIVectorAppend', 'UIVectorRemoveAt', 'MatrixSort', 'square_to_condensed_index'],
    bounds='MDC: 3..4 objects, 1..n selected, all three metric codes, 1..2 threads, distances havoced; MaxDis_Fast: 3..4 objects, 1..n selected, distances havoced to an arbitrary non-negative symmetric table; first pick of MaxDis and MaxDis_Fast: 3..4 objects x 1..2 variables, all real contents; one k-means step: 3 objects x 1..2 variables, 2 centroids',
    outside='MaxDis (heap-churning per-step distance matrices: no answer in 600 s at 3 objects, measured), agreement of MaxDis with MaxDis_Fast, k-means++ seeding, k-means convergence, sizes above 4',
    stubs=['distance kernels havoced (over-approximation of every metric)', 'sqrt uninterpreted in MaxDis_Fast', 'typed memmove model', 'pthread synchronous'],
    assumptions=[],
)


def obligations(tier):
    obs = []
    th = tier == 'thorough'
    to = 300 if not th else 1800
    RM0 = ('CalculateDistance', 'MDCWorker')
    RM1 = ('EuclideanDistanceCondensed', 'ManhattanDistanceCondensed', 'CosineDistanceCondensed', 'SquaredEuclideanDistanceCondensed')
    for n in ((3,) if not th else (3, 4)):
        for s in range(1, n + 1):
            for metric in (0, 1, 2):
                for t in ((1, 2) if (th or metric == 2) else (1,)):
                    obs.append(Ob(id=f'mdc/n{n}s{s}/metric{metric}/t{t}', harness='C17/selection.c', tus=T, defs={'HP_WHICH': 0, 'HP_N': n, 'HP_S': s, 'HP_METRIC': metric, 'HP_T': t}, engine='bits', unwind=n + 4, timeout=to,
                                  clause='MDC: requested count, distinct, in range', remove=RM0, stubs=('sym_pthread_sync.c', 'memmove_typed.c', 'sym_bits_env.c'), object_bits=11))
    for n in ((3, 4) if not th else (3, 4, 5)):
        for s in range(1, n + 1):
            if not th and n == 4 and s == 4: continue
            obs.append(Ob(id=f'maxdis_fast/n{n}s{s}', harness='C17/selection.c', tus=T, defs={'HP_WHICH': 1, 'HP_N': n, 'HP_S': s, 'HP_METRIC': 1, 'HP_T': 1}, engine='bits', unwind=max(n * (n - 1) // 2, n) + 4, timeout=to,
                          clause='max-min selection: count, distinct, in range, each element maximises the minimum distance', remove=RM1, stubs=('sym_pthread_sync.c', 'memmove_typed.c', 'sym_bits_env.c'), object_bits=11))
    obs.append(Ob(id='kmeans_convergence_rule', harness='C18/kmeans_cap.c', tus=T, defs={'HP_WHICH': 1}, engine='bits', unwind=6, timeout=300,
                  clause='k-means stops exactly when no centroid coordinate moved by more than the documented absolute tolerance (labels are nearest up to that tolerance)', stubs=('sym_bits_env.c',)))
    for which, nm in ((0, 'maxdis'), (1, 'maxdis_fast')):
        for (n, c) in ([(3, 1), (3, 2), (4, 1)] if not th else [(3, 1), (3, 2), (4, 1), (4, 2), (5, 1)]):
          for e in range(n):
            obs.append(Ob(id=f'first_farthest/{nm}/n{n}c{c}/expect{e}', harness='C17/first.c', tus=T, defs={'HP_WHICH': which, 'HP_N': n, 'HP_C': c, 'HP_EXPECT': e}, engine='real', unwind=n + 4, timeout=120 if not th else 900,
                          clause='first selected object = farthest from the centroid', remove=RM1 if which else (), stubs=('sym_real_env_mono.c', 'sym_pthread_sync.c'), real={'nomissing': True}))
    for (n, c) in ([(3, 1), (3, 2)] if not th else [(3, 1), (3, 2), (4, 2)]):
        obs.append(Ob(id=f'kmeans_labels/n{n}c{c}', harness='C17/kmeans_step.c', tus=T, defs={'HP_WHICH': 0, 'HP_N': n, 'HP_C': c, 'HP_LABELS': 1}, engine='real', unwind=8, timeout=120 if not th else 900,
                      clause='k-means step: labels in range and nearest', stubs=('sym_real_env.c',), real={'nomissing': True}))
        for labs in range(1, (1 << n) - 1):
            obs.append(Ob(id=f'kmeans_centroids/n{n}c{c}/labels{labs:0{n}b}', harness='C17/kmeans_step.c', tus=T, defs={'HP_WHICH': 1, 'HP_N': n, 'HP_C': c, 'HP_LABELS': labs}, engine='real', unwind=8, timeout=120 if not th else 900,
                          clause='k-means step: centroid = mean of its members', remove=('randInt',), stubs=('sym_real_env.c', 'sym_randint_any.c'), real={'nomissing': True}))
    return obs
