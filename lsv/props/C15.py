"""C15 — regression and classification figures of merit equal their definitions."""
import itertools
from ..core import Ob
T = ['matrix', 'vector', 'memwrapper', 'numeric', 'algebra', 'tensor', 'list', 'interpolate', 'statistic']
META = dict(
    functions=['R2', 'MSE', 'RMSE', 'MAE', 'BIAS', 'ROC', 'PrecisionRecall', 'curve_area', 'MatrixAppendCol', 'MatrixAppendRow', 'MatrixReverseSort', 'MatrixCopy'],
    bounds='regression vectors n<=4 (thorough 5) with every mask of MISSING-coded truths leaving >=2 values, values symbolic in [-1e6,1e6], non-constant truth; IEEE-exact perfect-prediction obligation n=2,3; ROC/PR: every binary truth vector with both classes and every strict score order, n<=3 complete plus n=4 with a fixed third of the orders in quick; complete up to n=5 in thorough, scores symbolic within the order; curve_area n<=5',
    outside='rounding except in the IEEE-exact perfect-prediction obligation; ties between scores; vectors longer than the bound; the PLS statistic table (symbolic vector sizes: not encodable over the reals; its column layout ny*lv+j is decided in C03/C05)',
    stubs=['sqrt = exact real root (E-REAL)'],
    assumptions=['truth variance >= 1e-6 (non-constant truth)', 'AUC invariances are consequences of the Mann-Whitney identity, not separate queries'],
)


def obligations(tier):
    obs = []
    th = tier == 'thorough'
    to = 120 if not th else 900
    R = ('sym_real_env.c',)
    for n in ((2, 3, 4) if not th else (2, 3, 4, 5)):
        for mask in range(1 << n):
            if n - bin(mask).count('1') < 2: continue
            if not th and n == 4 and bin(mask).count('1') > 1: continue
            for perfect in (0, 1):
                obs.append(Ob(id=f'regression/n{n}/mask{mask}/{"perfect" if perfect else "any"}', harness='C15/regression.c', tus=T,
                              defs={'HP_N': n, 'HP_MASK': mask, 'HP_PERFECT': perfect, 'HP_INEQ': 1 if n <= 3 else 0}, engine='real', unwind=8, timeout=to,
                              clause='R2/MSE/RMSE/MAE/BIAS formulas', stubs=R, real={'nomissing': True}))
    for n in (2, 3):
        obs.append(Ob(id=f'perfect_ieee/n{n}', harness='C15/perfect_bits.c', tus=T, defs={'HP_N': n}, engine='bits', unwind=6, timeout=300 if not th else 1800,
                      clause='perfect prediction in IEEE arithmetic', flags=()))
    for n in (2, 3):
        for off in ('1048576.0', '268435456.0', '1e9', '-3e8'):
            obs.append(Ob(id=f'perfect_ieee_offset/n{n}/off{off}', harness='C15/perfect_offset.c', tus=T, defs={'HP_N': n, 'HP_OFFSET': off}, engine='bits', unwind=6, timeout=300 if not th else 1800,
                          clause='perfect prediction in IEEE arithmetic'))
    for n in ((2, 3, 4) if not th else (2, 3, 4, 5)):
        for labels in range(1, (1 << n) - 1):
            for pi, perm in enumerate(itertools.permutations(range(n))):
                if not th and n == 4 and pi % 3: continue      # quick: every truth vector, a fixed third of the 24 strict orders at n=4
                for which, nm in ((0, 'roc'), (1, 'pr')):
                    obs.append(Ob(id=f'{nm}/n{n}/labels{labels:0{n}b}/order{"".join(map(str, perm))}', harness='C15/roc.c', tus=T,
                                  defs={'HP_N': n, 'HP_LABELS': labels, 'HP_PERM': ','.join(map(str, perm)), 'HP_WHICH': which}, engine='real', unwind=n + 4, timeout=to,
                                  clause='ROC curve and Mann-Whitney AUC' if which == 0 else 'precision-recall curve', stubs=R, real={'nomissing': True, 'tactics': ('default', 'nlsat')}))
    TT = T + ['pls', 'mlr', 'pca', 'preprocessing', 'metricspace']
    # (the PLS table skips MISSING truths while appending to growing vectors: symbolic sizes put raw-byte memory operations into the VC, which the
    #  real-arithmetic rewriter rejects - measured undecided; the MLR table, which has no such branch, is decided)
    for (n, ny, nlv, mlr) in [(2, 2, 1, 1), (3, 2, 1, 1), (3, 1, 1, 1)]:
        obs.append(Ob(id=f'tables/{"mlr" if mlr else "pls"}/n{n}ny{ny}nlv{nlv}', harness='C15/tables.c', tus=TT, defs={'HP_N': n, 'HP_NY': ny, 'HP_NLV': nlv, 'HP_MLR': mlr}, engine='real', unwind=8, timeout=to,
                      clause='statistic tables = the figures of merit per response and latent variable', stubs=('sym_real_env_uf.c',), real={'nomissing': True, 'tactics': ('default', 'nlsat')}))
    # MISSING-coded truths are ignored per response column (an object with one missing response still counts for the other responses)
    for (n, ny, nlv, mlr, mask) in ([(4, 2, 1, 1, 0b00000010), (4, 2, 1, 1, 0b00100100)] if not th else [(4, 2, 1, 1, 0b00000010), (4, 2, 1, 1, 0b00100100), (5, 2, 1, 1, 0b0000011000)]):
        if mlr:
            obs.append(Ob(id=f'tables_missing/mlr/n{n}ny{ny}nlv{nlv}/mask{mask:b}', harness='C15/tables.c', tus=TT, defs={'HP_N': n, 'HP_NY': ny, 'HP_NLV': nlv, 'HP_MLR': mlr, 'HP_MASK': mask}, engine='real', unwind=8, timeout=to,
                          clause='statistic tables = the figures of merit per response and latent variable (missing-coded truths ignored per column)', stubs=('sym_real_env_uf.c',), real={'nomissing': True, 'tactics': ('default', 'nlsat')}))
        # (the PLS table with missing cells was tried bit-precisely as well: CBMC reports the end of the harness unreachable or does not finish - not claimed)
    for n in (2, 3, 4, 5):
        obs.append(Ob(id=f'area/n{n}', harness='C15/area.c', tus=T, defs={'HP_N': n}, engine='real', unwind=8, timeout=to, clause='trapezoid area', stubs=R, real={'nomissing': True}))
    return obs
