"""C14 — containers stay memory-safe and shape-consistent under any operation history (E-BITS, bounded histories +
representation invariant after every step)."""
from ..core import Ob
T = ['matrix', 'vector', 'memwrapper', 'numeric', 'algebra', 'tensor', 'list', 'interpolate']
META = dict(
    functions=['initDVector', 'NewDVector', 'DelDVector', 'DVectorResize', 'DVectorAppend', 'DVectorRemoveAt', 'DVectorCopy', 'DVectorExtend', 'setDVectorValue', 'getDVectorValue', 'initUIVector', 'NewUIVector', 'UIVectorResize', 'UIVectorAppend', 'UIVectorRemoveAt', 'UIVectorExtend', 'setUIVectorValue', 'getUIVectorValue', 'SortUIVector', 'intcmp', 'initIVector', 'NewIVector', 'IVectorAppend', 'IVectorRemoveAt', 'IVectorExtend', 'setIVectorValue', 'getIVectorValue', 'initTensor', 'AddTensorMatrix', 'TensorAppendMatrix', 'TensorAppendColumn', 'TensorAppendRow', 'setTensorValue', 'getTensorValue', 'TensorCopy', 'TensorSet', 'DelTensor', 'initDVectorList', 'DVectorListAppend', 'DelDVectorList', 'initMatrix', 'NewMatrix', 'ResizeMatrix', 'DelMatrix', 'MatrixCopy', 'MatrixSet', 'setMatrixValue', 'getMatrixValue', 'getMatrixRow', 'getMatrixColumn',
               'MatrixAppendRow', 'MatrixAppendCol', 'MatrixAppendUIRow', 'MatrixAppendUICol', 'MatrixDeleteRowAt', 'MatrixDeleteColAt'],
    bounds='operation histories of length 1..2 (quick: full alphabet at length 1, core alphabet at length 2; thorough: full alphabet at length 2, core at 3) from 7 initial shapes (empty, 0x0, 1x1, 2x3, 3x2, 0x2, 2x0); operand lengths 0..4 (shorter/equal/longer/zero); contents, values and indices symbolic (out-of-range accessor indices: any size_t)',
    outside='strvector beyond three fixed histories with 2-character strings, allocation failure (--no-malloc-may-fail: the library aborts in xmalloc), memory leaks, histories longer than the bound (the representation invariant asserted after every step is what extends them), NaN/Inf/MISSING-coded cell values, delete with an out-of-range index',
    stubs=['printf/fprintf/fflush: CBMC built-in no-op models', 'memmove: typed word-wise model (vectors)'],
    assumptions=['operations are valid for the current shape (the driver simulates the shape and only emits valid sequences)'],
)
NONE, RESIZE, APPENDROW, APPENDCOL, APPENDUIROW, APPENDUICOL, DELROW, DELCOL, SETGET, COPYNEW, COPYINTO, GETROWCOL, SET = range(13)
NAMES = ['none', 'resize', 'approw', 'appcol', 'appuirow', 'appuicol', 'delrow', 'delcol', 'setget', 'copynew', 'copyinto', 'getrowcol', 'set']


def sim(op, a, rc):
    r, c = rc
    if op == RESIZE: return (a // 8, a % 8)
    if op in (APPENDROW, APPENDUIROW): return (r + 1, (max(a, c) if c != 0 else a))
    if op in (APPENDCOL, APPENDUICOL): return ((max(a, r) if r != 0 else a), c + 1)
    if op == DELROW: return (r - 1, c) if r >= 1 else None
    if op == DELCOL: return (r, c - 1) if (c >= 1) else None
    return (r, c)


def matrix_obs(tier):
    full = [(RESIZE, 0), (RESIZE, 8 * 1 + 2), (RESIZE, 8 * 3 + 3), (RESIZE, 8 * 2 + 0)]
    for op in (APPENDROW, APPENDCOL, APPENDUIROW, APPENDUICOL):
        full += [(op, n) for n in (0, 1, 2, 3, 4)]
    full += [(DELROW, 0), (DELCOL, 0), (SETGET, 0), (COPYNEW, 0), (COPYINTO, 0), (COPYINTO, 8 * 2 + 3), (COPYINTO, 8 * 1 + 1), (COPYINTO, 8 * 3 + 4), (GETROWCOL, 0), (SET, 0)]
    core = [(RESIZE, 8 * 1 + 2), (APPENDROW, 1), (APPENDROW, 3), (APPENDCOL, 1), (APPENDCOL, 3), (APPENDUICOL, 2), (APPENDUIROW, 2), (DELROW, 0), (DELCOL, 0), (SETGET, 0), (COPYINTO, 8 * 2 + 3), (COPYNEW, 0)]
    inits = [-1, 0, 8 * 1 + 1, 8 * 2 + 3, 8 * 3 + 2, 2, 8 * 2]
    seqs = []
    for i0 in inits:
        rc0 = (0, 0) if i0 < 0 else (i0 // 8, i0 % 8)
        for o1 in full:
            d1 = sim(*o1, rc0)
            if d1 is None: continue
            seqs.append((i0, [o1]))
            second = full if tier == 'thorough' else core
            for o2 in second:
                d2 = sim(*o2, d1)
                if d2 is None or max(d2) > 7: continue
                if tier != 'thorough' and (o1 not in core or i0 not in (-1, 8 * 2 + 3, 2)): continue
                seqs.append((i0, [o1, o2]))
                if tier == 'thorough' and o1 in core and o2 in core and i0 in (-1, 8 * 2 + 3):
                    for o3 in core:
                        d3 = sim(*o3, d2)
                        if d3 is None or max(d3) > 7: continue
                        seqs.append((i0, [o1, o2, o3]))
    obs = []
    for i0, ops in seqs:
        d = {'HP_INIT': i0, 'HP_OP1': 0, 'HP_A1': 0, 'HP_OP2': 0, 'HP_A2': 0, 'HP_OP3': 0, 'HP_A3': 0}
        for k, (op, a) in enumerate(ops, 1): d[f'HP_OP{k}'] = op; d[f'HP_A{k}'] = a
        name = 'matrix/init%s/' % ('E' if i0 < 0 else f'{i0//8}x{i0%8}') + '+'.join(f'{NAMES[op]}{a if op not in (RESIZE, COPYINTO) else str(a//8)+"x"+str(a%8)}' for op, a in ops)
        kf = ''
        obs.append(Ob(id=name, harness='C14/matrix_ops.c', tus=T, defs=d, engine='bits', unwind=10, timeout=120 if tier == 'quick' else 900,
                      clause='matrix', stubs=('memmove_typed.c',), object_bits=10))
    return obs


V_APPEND, V_REMOVE, V_RESIZE, V_EXTEND, V_SETGET, V_COPYTO, V_OOR, V_SORT = range(1, 9)
VN = ['', 'append', 'remove', 'resize', 'extend', 'setget', 'copyto', 'oor', 'sort']


def vsim(op, a, n):
    if op == V_APPEND: return n + 1
    if op == V_REMOVE: return None      # size depends on the symbolic index: only allowed as the LAST step (driver) unless n==0
    if op == V_RESIZE: return a
    if op == V_EXTEND: return n + a
    if op in (V_SETGET, V_OOR): return n if n >= 1 else None
    return n


def vector_obs(tier):
    obs = []
    for kind, kname in ((0, 'dvector'), (1, 'uivector'), (2, 'ivector')):
        ops = [(V_APPEND, 0), (V_REMOVE, 0), (V_EXTEND, 0), (V_EXTEND, 2), (V_SETGET, 0), (V_OOR, 0)]
        if kind in (0, 1): ops += [(V_RESIZE, 0), (V_RESIZE, 3)]
        if kind == 0: ops += [(V_COPYTO, 0), (V_COPYTO, 2), (V_COPYTO, 5)]
        if kind == 1: ops += [(V_SORT, 0)]
        for i0 in (-1, 0, 1, 3):
            n0 = max(i0, 0)
            for o1 in ops:
                seqs = []
                d1 = vsim(*o1, n0)
                if o1[0] in (V_SETGET, V_OOR) and n0 < 1: continue
                seqs.append([o1])
                if o1[0] != V_REMOVE and d1 is not None and (tier == 'thorough' or i0 == 3):
                    for o2 in ops:
                        if o2[0] in (V_SETGET, V_OOR) and d1 < 1: continue
                        seqs.append([o1, o2])
                        d2 = vsim(*o2, d1)
                        if tier == 'thorough' and o2[0] != V_REMOVE and d2 is not None and i0 in (-1, 3):
                            for o3 in ops:
                                if o3[0] in (V_SETGET, V_OOR) and d2 < 1: continue
                                seqs.append([o1, o2, o3])
                elif o1[0] == V_REMOVE and (tier == 'thorough' or i0 == 3):
                    # remove with a symbolic index, then operations that are valid for either resulting size
                    for o2 in ops:
                        if o2[0] in (V_SETGET, V_OOR): continue
                        seqs.append([o1, o2])
                for sq in seqs:
                    d = {'HP_KIND': kind, 'HP_INIT': i0, 'HP_OP1': 0, 'HP_A1': 0, 'HP_OP2': 0, 'HP_A2': 0, 'HP_OP3': 0, 'HP_A3': 0}
                    for k, (op, a) in enumerate(sq, 1): d[f'HP_OP{k}'] = op; d[f'HP_A{k}'] = a
                    name = f'{kname}/init{"E" if i0 < 0 else i0}/' + '+'.join(f'{VN[op]}{a}' for op, a in sq)
                    obs.append(Ob(id=name, harness='C14/vector_ops.c', tus=T, defs=d, engine='bits', unwind=14, timeout=120 if tier == 'quick' else 900,
                                  clause=kname, stubs=('memmove_typed.c', 'sym_qsort.c'), object_bits=10))
    # the real allocator's realloc(p, 0) frees p and returns NULL; CBMC's model does not. Histories that drain a vector to empty and go on
    # are therefore also run natively (ASan) on sample values - the only place where a shrink-to-fit that forgets this can show
    for kind, kname in ((0, 'dvector'), (1, 'uivector'), (2, 'ivector')):
        for sq in ([(V_REMOVE, 0)], [(V_REMOVE, 0), (V_APPEND, 0)], [(V_REMOVE, 0), (V_EXTEND, 2)]):
            d = {'HP_KIND': kind, 'HP_INIT': 1, 'HP_OP1': 0, 'HP_A1': 0, 'HP_OP2': 0, 'HP_A2': 0, 'HP_OP3': 0, 'HP_A3': 0}
            for k, (op, a) in enumerate(sq, 1): d[f'HP_OP{k}'] = op; d[f'HP_A{k}'] = a
            obs.append(Ob(id=f'native_allocator/{kname}/init1/' + '+'.join(f'{VN[op]}{a}' for op, a in sq), harness='C14/vector_ops.c', tus=T, defs=d, engine='native', timeout=120,
                          clause=kname + ' drained to empty and used again, against the real allocator (ASan)', stubs=('memmove_typed.c', 'sym_qsort.c'),
                          native_inputs=tuple(['i 0', 'd 1.5', 'i 0', 'd -2.25', 'i 7', 'd 3.5'] * 12)))
    return obs


T_ADD, T_APPENDM, T_APPENDCOL, T_APPENDROW, T_SETGET, T_COPYNEW, T_COPYINTO, T_SET = range(1, 9)
TN = ['', 'add', 'appendm', 'appcol', 'approw', 'setget', 'copynew', 'copyinto', 'set']


def tsim(op, a, st):
    st = list(st)
    if op == T_ADD: st.append((a // 8, a % 8))
    elif op == T_APPENDM:
        if st and st[-1][0] != a // 8: return None
        st.append((a // 8, a % 8))
    elif op == T_APPENDCOL:
        k, n = a // 8, a % 8
        if k >= len(st): return None
        R, C = st[k]; st[k] = ((n if R == 0 else max(R, n)), C + 1)
    elif op == T_APPENDROW:
        k, n = a // 8, a % 8
        if k >= len(st): return None
        R, C = st[k]
        if n == R: return None            # the library refuses such a row (clean abort)
        st[k] = (R + 1, (n if C == 0 else max(C, n)))
    elif op == T_SETGET:
        if not any(r > 0 and c > 0 for r, c in st): return None
    if len(st) > 4 or any(max(rc) > 6 for rc in st): return None
    return st


def tensor_obs(tier):
    """histories start from an empty tensor; first steps build 1..2 blocks, later steps operate on them"""
    obs = []
    builds = [[(T_ADD, 8 * 2 + 2)], [(T_ADD, 8 * 1 + 3), (T_ADD, 8 * 1 + 1)], [(T_APPENDM, 8 * 2 + 1), (T_APPENDM, 8 * 2 + 3)], [(T_ADD, 8 * 2 + 2), (T_APPENDM, 8 * 2 + 1)], [(T_APPENDM, 8 * 0 + 0)]]
    for b in builds:
        no = len(b)
        tails = [[]]
        acts = [(T_SETGET, 0), (T_COPYNEW, 0), (T_SET, 0), (T_COPYINTO, 0)] + [(T_COPYINTO, k) for k in (1, 2, 3)]
        for k in range(no):
            acts += [(T_APPENDCOL, 8 * k + n) for n in (0, 1, 2, 3)] + [(T_APPENDROW, 8 * k + n) for n in (0, 1, 3, 4)]
        acts += [(T_ADD, 8 * 1 + 2), (T_APPENDM, 8 * (b[-1][1] // 8) + 2)]
        for a1 in acts:
            tails.append([a1])
            if tier == 'thorough':
                for a2 in acts:
                    if len(b) + 2 <= 4: tails.append([a1, a2])
        for tl in tails:
            sq = b + tl
            st = []
            for o in sq:
                st = tsim(o[0], o[1], st)
                if st is None: break
            if st is None: continue
            d = {'HP_LIST': 0}
            for k in range(1, 5): d[f'HP_OP{k}'] = 0; d[f'HP_A{k}'] = 0
            for k, (op, a) in enumerate(sq, 1): d[f'HP_OP{k}'] = op; d[f'HP_A{k}'] = a
            name = 'tensor/' + '+'.join(f'{TN[op]}{a//8}.{a%8}' for op, a in sq)
            kf = ''
            obs.append(Ob(id=name, harness='C14/tensor_ops.c', tus=T, defs=d, engine='bits', unwind=10, timeout=120 if tier == 'quick' else 900, clause='tensor', kf=kf, object_bits=10))
    for n in (1, 2, 3, 4):
        for l in (0, 1, 2):
            obs.append(Ob(id=f'list/append{n}/l{l}', harness='C14/tensor_ops.c', tus=T, defs={'HP_LIST': 1, 'HP_N': n, 'HP_L': l}, engine='bits', unwind=8, timeout=120, clause='list', object_bits=10))
    return obs


def strvector_obs(tier):
    return [Ob(id=f'strvector/history{k}', harness='C14/strvector_ops.c', tus=T, defs={'HP_SEQ': k}, engine='bits', unwind=12, timeout=300, clause='strvector', object_bits=10, flags=('--string-abstraction',) if False else ()) for k in (0, 1, 2)]


def obligations(tier):
    return matrix_obs(tier) + vector_obs(tier) + tensor_obs(tier) + strvector_obs(tier)
