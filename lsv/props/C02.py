"""C02 — PCA components are the principal axes (spectral correctness): the decidable parts (E-REAL)."""
from ..core import Ob
from . import C01
T = C01.T
META = dict(
    functions=['PCA', 'calcConvergence', 'MatrixColVar', 'calcVarExpressed', 'DVectNorm', 'MT_DVectorMatrixDotProduct', 'MT_MatrixDVectorDotProduct'],
    bounds='X n<=3 x m<=3 symbolic, scaling -1: start vector (all shapes), exit rule over 2 passes from an arbitrary state (n<=3, m<=2), exact-fixed-point eigen-equation (2x2, 3x2)',
    outside='NOT decided by this technique: convergence to the k-th largest eigenpair, the accuracy implied by the tolerance, rotation equivariance (statements about the limit of a floating-point iteration); permutation equivariance (two-run query, not attempted)',
    stubs=['LSCI_VERIF_LOOP_HEAD / LSCI_VERIF_PRE_CONV hooks', 'calcConvergence real in the exit-rule obligation, forced in the fixed-point obligation', 'sqrt exact real root'],
    assumptions=['nonzero divisors', 'no MISSING-coded value'],
)


def obligations(tier):
    obs = []
    th = tier == 'thorough'
    to = 120 if not th else 900
    R = ('sym_real_env.c', 'sym_pthread_sync.c')
    LOOP = '@pca|PCA|while\\s*\\(\\s*1\\s*\\)|3'
    for (n, m) in ([(2, 2), (3, 2), (2, 3), (3, 3)] if not th else [(2, 2), (3, 2), (2, 3), (3, 3), (4, 3), (4, 4)]):
        obs.append(Ob(id=f'start_vector/{n}x{m}', harness='C02/spectral.c', tus=T, defs={'HP_WHICH': 0, 'HP_N': n, 'HP_M': m}, engine='real', unwind=8, timeout=to, clause='start vector = column of largest variance',
                      stubs=R, real={'nomissing': True, 'tactics': ('default', 'nlsat')}, unwindset=(LOOP,)))
    for (n, m) in ([(2, 1), (2, 2)] if not th else [(2, 1), (2, 2), (3, 2)]):
        obs.append(Ob(id=f'exit_rule/{n}x{m}', harness='C02/spectral.c', tus=T, defs={'HP_WHICH': 1, 'HP_N': n, 'HP_M': m}, engine='real', unwind=8, timeout=to, clause='exit only below the documented convergence criterion',
                      stubs=R, real={'nomissing': True}, unwindset=(LOOP,)))
    for (n, m) in ([(2, 2), (3, 2)] if not th else [(2, 2), (3, 2), (3, 3)]):
        obs.append(Ob(id=f'fixed_point/{n}x{m}', harness='C02/spectral.c', tus=T, defs={'HP_WHICH': 2, 'HP_N': n, 'HP_M': m}, engine='real', unwind=8, timeout=to, clause='exact fixed point => eigenpair of the cross-product matrix',
                      remove=('calcConvergence',), stubs=R, real={'nomissing': True}))
    return obs
