"""C16 — a saved model reads back equal to the model last written, whatever came before (E-BITS over the real src/io.c
with SQLite and snprintf replaced by a contract model; the decimal text round trip of a number is outside the encoding)."""
from ..core import Ob
T = ['io', 'matrix', 'vector', 'memwrapper', 'numeric', 'algebra', 'tensor', 'list', 'pca', 'cpca', 'pls']
META = dict(
    functions=['WritePCA', 'ReadPCA', 'WriteCPCA', 'ReadCPCA', 'WritePLS', 'ReadPLS', 'serialize_matrix', 'deserialize_matrix', 'serialize_tensor', 'deserialize_tensor',
               'serialize_dvectorlist', 'deserialize_dvectorlist', 'write_vector_into_sqltable', 'read_vector', 'OpenDB', 'DropAllTables', 'CloseDB'],
    bounds='write/read histories of length 2..5 over 1..2 paths, mixing PCA (4 shapes incl. the empty model), CPCA (4 shapes) and PLS (3 shapes: empty, calibration-only with empty validation fields, everything filled) models; every stored number symbolic (finite, 0 or 1e-9 <= |v| <= 1e9); matrices up to 3x2, tensors up to order 2, at most 40 rows per table',
    outside='the decimal text round trip of a number (snprintf "%.18f" and SQLite\'s literal parser are libc/SQLite internals: the model carries the formatted double to the INSERT, so the 1e-15 accuracy clause is only exercised by native replays), SQLite itself (replaced by the contract in stubs/sym_sqlite.c: tables per path persisting across open/close, rowid order, CREATE IF NOT EXISTS / INSERT / SELECT / COUNT / DROP / DELETE semantics, SELECT never modifies, shared locks of unfinished SELECT statements block writers), file-system failures, concurrent writers, reading a kind of model that was never written to the path, reading into a model that is not freshly created, SQL text the model does not know (reported as inconclusive)',
    stubs=['sqlite3_open/close/exec/prepare_v2/step/bind_double/column_double/column_text/finalize/errmsg/free: contract model of the statements io.c issues, recognised from the concrete statement text',
           'snprintf: %s copied, a floating conversion becomes a placeholder and its double is carried to the INSERT that receives the buffer', 'printf/fprintf: CBMC built-in no-op models'],
    assumptions=['a read asks for the kind of model last written to that path', 'stored numbers are finite with 0 or 1e-9 <= |v| <= 1e9'],
)
PCA, CPCA, PLS = 0, 1, 2
KN = ['pca', 'cpca', 'pls']


def hist(name, steps, tier, timeout=None, unwind=130):
    txt = ' '.join(('W(%d,%d,%d)' % s[1:]) if s[0] == 'W' else ('R(%d,%d)' % s[1:]) for s in steps)
    return Ob(id='history/' + name, harness='C16/history.c', tus=T, defs={'HP_STEPS': txt}, engine='bits', unwind=unwind,
              timeout=timeout or (300 if tier == 'quick' else 1800), clause='read returns the model last written', stubs=('sym_sqlite.c',),
              object_bits=12, flags=('--max-field-sensitivity-array-size', '160'))


# concrete values for the runs against the REAL SQLite (model validation; also the only place where the decimal text round trip is exercised)
SAMPLE = ['1e-09', '123456789.12345679', '-0.1', '0.33333333333333331', '1000000000', '0', '-2.5e-07', '3.1415926535897931e-05', '99999999', '-987654321.98765433',
          '4.9406564584124654e-09', '0.99999999999999989', '-1.0000000000000002', '65536.000000000007', '2.2250738585072014e-08', '-1e-09', '1e-05', '7', '-123456.78901234567', '0.5']


def validate(name, steps, tier):
    o = hist(name, steps, tier)
    o.id = 'model_vs_sqlite/' + name; o.engine = 'native'; o.timeout = 300
    o.clause = 'the same history against the real libsqlite3 and libc on sample values (validates the SQLite/snprintf contract model; exercises the 1e-15 text round-trip tolerance)'
    o.native_inputs = ['d ' + SAMPLE[(i * 7 + len(name)) % len(SAMPLE)] for i in range(500)]
    return o


def W(k, s, p=0): return ('W', k, s, p)
def R(k, p=0): return ('R', k, p)


def obligations(tier):
    obs = []
    # single write/read (the only history the repository's test samples), every kind and shape
    for k, shapes in ((PCA, (0, 1, 2, 3)), (CPCA, (0, 1, 2, 3)), (PLS, (0, 1, 2))):
        for s in shapes:
            obs.append(hist(f'{KN[k]}{s}>read', [W(k, s), R(k)], tier))
    # overwrite with a model of a different size, same kind
    for k, pairs in ((PCA, ((1, 2), (3, 1), (2, 0), (0, 3), (2, 2))), (CPCA, ((1, 2), (2, 1), (2, 0), (3, 2), (1, 3))), (PLS, ((1, 2), (2, 1), (2, 0)))):
        for a, b in pairs:
            obs.append(hist(f'{KN[k]}{a}>{KN[k]}{b}>read', [W(k, a), W(k, b), R(k)], tier))
    # a different kind written earlier to the same path; two paths interleaved
    obs.append(hist('pls1>pca2>read', [W(PLS, 1), W(PCA, 2), R(PCA)], tier))
    obs.append(hist('pca3>cpca1>read', [W(PCA, 3), W(CPCA, 1), R(CPCA)], tier))
    obs.append(hist('cpca2>pls1>read', [W(CPCA, 2), W(PLS, 1), R(PLS)], tier))
    obs.append(hist('pca1@A>pca2@B>readA>readB', [W(PCA, 1, 0), W(PCA, 2, 1), R(PCA, 0), R(PCA, 1)], tier))
    obs.append(hist('pca1@A>pca2@B>pca3@A>readB>readA', [W(PCA, 1, 0), W(PCA, 2, 1), W(PCA, 3, 0), R(PCA, 1), R(PCA, 0)], tier))
    obs.append(hist('pca2>read>pca1>read', [W(PCA, 2), R(PCA), W(PCA, 1), R(PCA)], tier))
    obs.append(hist('cpca1>read>cpca2>read', [W(CPCA, 1), R(CPCA), W(CPCA, 2), R(CPCA)], tier))
    obs.append(hist('pls1>read>pca1>read', [W(PLS, 1), R(PLS), W(PCA, 1), R(PCA)], tier))
    for name, steps in (('pca3>read', [W(PCA, 3), R(PCA)]), ('cpca2>read', [W(CPCA, 2), R(CPCA)]), ('pls2>read', [W(PLS, 2), R(PLS)]),
                        ('pca3>pca1>read', [W(PCA, 3), W(PCA, 1), R(PCA)]), ('pls2>pls1>read', [W(PLS, 2), W(PLS, 1), R(PLS)]), ('cpca2>cpca1>read', [W(CPCA, 2), W(CPCA, 1), R(CPCA)]), ('cpca3>read', [W(CPCA, 3), R(CPCA)]),
                        ('pls1>pca2>read', [W(PLS, 1), W(PCA, 2), R(PCA)]), ('pca2>read>pca1>read', [W(PCA, 2), R(PCA), W(PCA, 1), R(PCA)]), ('pls1>read>pca1>read', [W(PLS, 1), R(PLS), W(PCA, 1), R(PCA)]),
                        ('pca1@A>pca2@B>pca3@A>readB>readA', [W(PCA, 1, 0), W(PCA, 2, 1), W(PCA, 3, 0), R(PCA, 1), R(PCA, 0)]),
                        ('pls2@A>cpca2@B>pca3@A>cpca1@B>readA>readB', [W(PLS, 2, 0), W(CPCA, 2, 1), W(PCA, 3, 0), W(CPCA, 1, 1), R(PCA, 0), R(CPCA, 1)])):
        obs.append(validate(name, steps, tier))
    if tier == 'thorough':
        obs.append(hist('pca1>pca2>pca3>pca1>read', [W(PCA, 1), W(PCA, 2), W(PCA, 3), W(PCA, 1), R(PCA)], tier))
        obs.append(hist('pca3>pca2>pca1>pca0>read', [W(PCA, 3), W(PCA, 2), W(PCA, 1), W(PCA, 0), R(PCA)], tier))
        obs.append(hist('cpca1>cpca2>cpca1>read', [W(CPCA, 1), W(CPCA, 2), W(CPCA, 1), R(CPCA)], tier))
        obs.append(hist('pls2>pls1>pls2>read', [W(PLS, 2), W(PLS, 1), W(PLS, 2), R(PLS)], tier))
        obs.append(hist('pls2@A>cpca2@B>pca3@A>cpca1@B>readA>readB', [W(PLS, 2, 0), W(CPCA, 2, 1), W(PCA, 3, 0), W(CPCA, 1, 1), R(PCA, 0), R(CPCA, 1)], tier))
        obs.append(hist('pca1>cpca1>pls1>pca2>read', [W(PCA, 1), W(CPCA, 1), W(PLS, 1), W(PCA, 2), R(PCA)], tier))
    return obs
