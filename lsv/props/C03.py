"""C03 — PLS (NIPALS) model satisfies its structural identities (E-REAL one-pass obligations + E-BITS layout)."""
from ..core import Ob
T = ['matrix', 'vector', 'memwrapper', 'numeric', 'algebra', 'tensor', 'list', 'interpolate', 'preprocessing', 'pca', 'pls', 'statistic', 'metricspace']
META = dict(
    functions=['LVCalc', 'PLS', 'PLSYPredictor', 'PLSScorePredictor', 'PLSYPredictorAllLV', 'MatrixPreprocess', 'DVectNorm', 'DvectorModule', 'MatrixDVectorDotProduct', 'DVectorMatrixDotProduct', 'MatrixAppendCol', 'getMatrixColumn'],
    bounds='latent variable: X n<=3(4) x m<=2(3), Y with 1..2 responses, loop-carried y-score symbolic at both loop heads; layout: ny<=3 x nlv<=3 x n<=2, all values symbolic (any double); predictors: n<=2, m<=3, nlv<=3, ny<=2, requested a in 1..nlv+1, stored means/scales present or absent, scales of either sign',
    outside='rounding; convergence of the inner iteration; mutual orthogonality of scores and of weights beyond the two code facts X\'t=(t\'t)p and p.w=1 when these stay undecided (reported so); scaling options other than -1 inside PLS() (compose with C10)',
    stubs=['calcConvergence: forced verdict', 'LSCI_VERIF_LOOP_HEAD hook havocs the carried u', 'LVCalc havoced in the layout obligations', 'sqrt exact real root'],
    assumptions=['nonzero divisors', 'no value equals the MISSING code'],
)


def obligations(tier):
    obs = []
    th = tier == 'thorough'
    to = 120 if not th else 900
    R = ('sym_real_env.c',)
    for (n, m, ny) in ([(3, 2, 1), (3, 2, 2), (2, 2, 1)] if not th else [(3, 2, 1), (3, 2, 2), (2, 2, 1), (4, 3, 1), (4, 2, 2), (3, 3, 2)]):
        for part in (0, 1, 2):
            if part == 2 and (n, m, ny) != (2, 2, 1) and not th: continue     # beyond 2x2 with one response the X't=(t't)p link is attempted in thorough only (measured undecided at 120 s)
            obs.append(Ob(id=f'lv_pass/{n}x{m}ny{ny}/part{part}', harness='C03/lv_pass.c', tus=T, defs={'HP_N': n, 'HP_M': m, 'HP_NY': ny, 'HP_PART': part}, engine='real', unwind=8, timeout=to,
                          clause=['t = Xw, |p| = 1, X deflation', 'Y deflation, inner relation, |q| = 1', "code facts X't = (t't)p and w parallel to X'u (behind score/weight orthogonality, closed by lemmas 5..9)"][part],
                          remove=('calcConvergence',), stubs=R, real={'nomissing': True}, unwindset=()))
    for (ny, nlv, n) in ([(1, 1, 2), (1, 2, 2), (2, 2, 2), (3, 2, 1), (2, 3, 1)] if not th else [(1, 1, 2), (1, 2, 2), (2, 2, 2), (3, 2, 1), (2, 3, 1), (3, 3, 2), (2, 3, 3)]):
        obs.append(Ob(id=f'layout/ny{ny}nlv{nlv}n{n}', harness='C03/layout.c', tus=T, defs={'HP_NY': ny, 'HP_NLV': nlv, 'HP_N': n, 'HP_M': nlv}, engine='real', unwind=10, timeout=to,
                      clause='recalculated_y / recalc_residuals layout', remove=('LVCalc',), stubs=R, real={'nomissing': True}))
    for pre in (0, 1, 2):
        for (n, ny, nlv) in ([(2, 2, 2), (1, 1, 3)] if not th else [(2, 2, 2), (1, 1, 3), (2, 3, 3)]):
            for a in range(1, nlv + 2):
                obs.append(Ob(id=f'ypredictor/n{n}ny{ny}nlv{nlv}/a{a}/pre{pre}', harness='C03/predict.c', tus=T, defs={'HP_WHICH': 0, 'HP_N': n, 'HP_NY': ny, 'HP_NLV': nlv, 'HP_M': 1, 'HP_A': a, 'HP_PRE': pre},
                              engine='real', unwind=8, timeout=to, clause='y = sum b t q\' back-transformed', stubs=R, real={'nomissing': True}))
        for (n, m, nlv) in ([(2, 2, 2), (1, 3, 2)] if not th else [(2, 2, 2), (1, 3, 2), (2, 3, 3)]):
            for a in (1, nlv, nlv + 1):
                obs.append(Ob(id=f'scorepredictor/n{n}m{m}nlv{nlv}/a{a}/pre{pre}', harness='C03/predict.c', tus=T, defs={'HP_WHICH': 1, 'HP_N': n, 'HP_NY': 1, 'HP_NLV': nlv, 'HP_M': m, 'HP_A': a, 'HP_PRE': pre},
                              engine='real', unwind=8, timeout=to, clause='re-projection t = Xw, X -= tp\'', stubs=R, real={'nomissing': True}))
    obs.append(Ob(id='ypredictor_reused_output/n2ny2nlv2/a2', harness='C03/predict.c', tus=T, defs={'HP_WHICH': 0, 'HP_N': 2, 'HP_NY': 2, 'HP_NLV': 2, 'HP_M': 1, 'HP_A': 2, 'HP_PRE': 2, 'HP_PREFILL': 1}, engine='real', unwind=8, timeout=to, clause='y = sum b t q\' back-transformed', stubs=R, real={'nomissing': True}))
    obs.append(Ob(id='scorepredictor_reused_output/n2m2nlv2/a2', harness='C03/predict.c', tus=T, defs={'HP_WHICH': 1, 'HP_N': 2, 'HP_NY': 1, 'HP_NLV': 2, 'HP_M': 2, 'HP_A': 2, 'HP_PRE': 2, 'HP_PREFILL': 1}, engine='real', unwind=8, timeout=to, clause='re-projection t = Xw, X -= tp\'', stubs=R, real={'nomissing': True}))
    for (n, m, ny) in ([(2, 1, 2), (3, 2, 2), (3, 1, 3)] if not th else [(2, 1, 2), (3, 2, 2), (3, 1, 3), (4, 2, 3)]):
        obs.append(Ob(id=f'lv_start/{n}x{m}ny{ny}', harness='C03/lv_start.c', tus=T, defs={'HP_N': n, 'HP_M': m, 'HP_NY': ny}, engine='real', unwind=8, timeout=to, clause='start vector = response of largest variance (a constant response is never the start vector unless all are constant)',
                      stubs=R, real={'nomissing': True, 'tactics': ('default', 'nlsat')}))
    for lem in (5, 6, 7, 8, 9):
        for (n, m) in ([(2, 2), (3, 2)] if not th else [(2, 2), (3, 2), (3, 3), (4, 3)]):
            obs.append(Ob(id=f'lemma{lem}/{n}x{m}', harness='C01/lemmas.c', tus=['memwrapper'], defs={'HP_LEMMA': lem, 'HP_N': n, 'HP_M': m}, engine='real', unwind=6, timeout=to,
                          clause='algebraic closing steps: mutual orthogonality of scores and of weights from the code facts', real={'nomissing': False}))
    return obs
