"""C13 — multithreaded kernels equal their sequential definition for any thread count (E-BITS)."""
from ..core import Ob
T = ['matrix', 'vector', 'memwrapper', 'numeric', 'algebra', 'tensor', 'list', 'interpolate', 'metricspace', 'clustering']
SITES = {1: 'MT_MatrixDVectorDotProduct', 2: 'MT_DVectorMatrixDotProduct', 3: 'CalculateDistance', 4: 'EuclideanDistanceCondensed', 5: 'SquaredEuclideanDistanceCondensed',
         6: 'ManhattanDistanceCondensed', 7: 'CosineDistanceCondensed', 8: 'getLabels_'}
META = dict(
    functions=list(SITES.values()) + ['MatrixDVectorDotProductWorker', 'DVectorMatrixDotProductWorker', 'CalcWorker', 'CalcCondensedWorker', 'getLabelsWorker', 'square_to_condensed_index', 'GetNProcessor'],
    bounds='slicing: rows 0..40 and threads 1..24 BOTH symbolic per query (both tiers); values: rows<=4, cols<=2, threads 1..6 concrete, contents symbolic bit-precise; index map n<=40 symbolic',
    outside='the OS scheduler / libpthread / weak memory (interleavings are checked for 2 workers under sequential consistency only), triangle inequality (a theorem about norms, not code), MDCWorker and kmppDistanceWorker slicing (inside selection algorithms, see C17)',
    stubs=['pthread_create/join: recording model, workers synchronous', 'GetNProcessor through the guarded lsci_verif_nproc hook', 'sqrt: uninterpreted function (bit-exact equality needs determinism only)'],
    assumptions=['worker-argument struct layouts are re-extracted from the current source on every run'],
)


def obligations(tier):
    obs = []
    th = tier == 'thorough'
    for site, nm in SITES.items():
        grids = [(40, 24)]      # the full range in both tiers (a seeded change needed more than 16 threads; the whole family costs under two minutes)
        for (mr, mt) in grids:
            obs.append(Ob(id=f'slices/{nm}/rows{mr}xthreads{mt}', harness='C13/slices.c', tus=T, defs={'HP_SITE': site, 'HP_MAXR': mr, 'HP_MAXT': mt}, engine='bits',
                          unwind=max(mr, mt) + 2, timeout=300 if not th else 1800, clause='every row is processed by exactly one worker', stubs=('pthread_rec.c',), object_bits=10,
                          unwindset=(f'DVectorResize.0:{mr*(mr-1)//2+2}',) if site in (4, 5, 6, 7) else ()))
    for which, nm in ((0, 'matvec'), (1, 'vecmat')):
        for (r, c, t) in ([(2, 1, 2), (1, 2, 2), (2, 2, 2)] if not th else [(2, 1, 2), (1, 2, 2), (2, 2, 2), (3, 2, 2), (3, 3, 3), (2, 3, 2)]):
            full = (which == 0 and c == 1) or (which == 1 and r == 1)      # one product per output: any double content; otherwise the special-value alphabet
            obs.append(Ob(id=f'values/mt_special/{nm}/{r}x{c}t{t}/{"any_double" if full else "alphabet"}', harness='C13/mtspecial.c', tus=T, defs={'HP_WHICH': which, 'HP_R': r, 'HP_C': c, 'HP_T': t, 'HP_ALPHA': 0 if full else 1}, engine='bits', unwind=6, timeout=300 if not th else 1800,
                          clause='multithreaded matrix-vector products = sequential kernels for every double content (NaN/Inf/MISSING)', stubs=('sym_pthread_sync.c',), object_bits=10, flags=('--sat-solver', 'cadical')))
    # values (E-REAL)
    R = ('sym_real_env_uf.c', 'sym_pthread_sync.c')
    to = 120 if not th else 900
    MN = ['euclid', 'sqeuclid', 'manhattan', 'cosine']
    for meth in (0, 1, 2, 3):
        for (n, n2, c, t) in ([(3, 2, 2, 1), (3, 2, 2, 2), (3, 2, 1, 4), (2, 2, 2, 3)] if not th else [(3, 2, 2, 1), (3, 2, 2, 2), (3, 2, 1, 4), (2, 2, 2, 3), (4, 2, 2, 3), (4, 3, 1, 6), (1, 1, 2, 5)]):
            if meth == 3 and not th and (n, n2, c, t) != (3, 2, 2, 2): continue
            obs.append(Ob(id=f'values/distance/{MN[meth]}/{n}x{n2}x{c}/t{t}', harness='C13/values.c', tus=T, defs={'HP_KERNEL': 1, 'HP_METHOD': meth, 'HP_N': n, 'HP_N2': n2, 'HP_C': c, 'HP_T': t},
                          engine='real', unwind=10, timeout=to, clause='multithreaded = single-threaded result', stubs=R, real={'nomissing': True}))
        for (n, c, t) in ([(4, 1, 1), (4, 2, 3), (3, 1, 5)] if not th else [(4, 1, 1), (4, 2, 3), (3, 1, 5), (5, 1, 2), (5, 2, 4), (2, 2, 7)]):
            if meth == 3 and not th and t != 3: continue
            obs.append(Ob(id=f'values/condensed/{MN[meth]}/{n}x{c}/t{t}', harness='C13/values.c', tus=T, defs={'HP_KERNEL': 2, 'HP_METHOD': meth, 'HP_N': n, 'HP_N2': n, 'HP_C': c, 'HP_T': t},
                          engine='real', unwind=14, timeout=to, clause='condensed form = strict upper triangle of the square form', stubs=R, real={'nomissing': True}))
        if meth != 3:
            for (n, c, t) in ([(3, 2, 2)] if not th else [(3, 2, 2), (3, 1, 4), (2, 2, 1)]):
                obs.append(Ob(id=f'values/props/{MN[meth]}/{n}x{c}/t{t}', harness='C13/values.c', tus=T, defs={'HP_KERNEL': 4, 'HP_METHOD': meth, 'HP_N': n, 'HP_N2': n, 'HP_C': c, 'HP_T': t},
                              engine='real', unwind=10, timeout=to, clause='distance definitions (symmetry, zero self-distance, non-negativity)', stubs=R, real={'nomissing': True}))
    for (n, k, c, t) in ([(3, 2, 1, 2), (3, 2, 2, 4), (3, 3, 1, 3)] if not th else [(3, 2, 1, 2), (3, 2, 2, 4), (4, 3, 1, 3), (4, 2, 2, 1), (5, 2, 1, 6)]):
        obs.append(Ob(id=f'values/labels/{n}x{k}x{c}/t{t}', harness='C13/values.c', tus=T, defs={'HP_KERNEL': 3, 'HP_N': n, 'HP_N2': k, 'HP_C': c, 'HP_T': t},
                      engine='real', unwind=10, timeout=to, clause='multithreaded = single-threaded result', stubs=R, real={'nomissing': True}))
    # (a concurrent run of the MT kernels with __CPROVER_ASYNC workers was tried: CBMC 6.11 refuses it - 'pointer handling for concurrency is
    #  unsound' - because the worker arguments are pointers shared between threads; disjointness is decided through the slice obligations above)
    for mn in ([12, 40] if not th else [40, 64]):
        obs.append(Ob(id=f'indexmap/n{mn}', harness='C13/indexmap.c', tus=T, defs={'HP_MAXN': mn}, engine='bits', unwind=4, timeout=300 if not th else 1800, clause='index map is a bijection'))
    return obs
