"""C05 — cross-validation predictions are out-of-sample and cover every object once (E-BITS, tagging learner stubs)."""
from ..core import Ob
T = ['matrix', 'vector', 'memwrapper', 'numeric', 'algebra', 'tensor', 'list', 'interpolate', 'statistic', 'modelvalidation', 'preprocessing', 'metricspace', 'mlr', 'pls', 'lda', 'pca']
REMOVE = ('MLR', 'MLRPredictY', 'PLS', 'PLSYPredictorAllLV', 'LDA', 'LDAPrediction', 'srand_', 'randInt',
          'EPLSRandomGroupCVModel', 'EPLSLOOModel_', 'YScrambling', 'ValidationArg_', 'initValidationArg')
META = dict(
    functions=['LeaveOneOut', 'KFoldCV', 'BootstrapRandomGroupsCV', 'random_kfold_group_generator', 'kfold_group_train_test_split', 'PLSRandomGroupCVModel', 'MLRRandomGroupCVModel',
               'LDARandomGroupCVModel', 'PLSLOOModel_', 'MLRLOOModel_', 'LDALOOModel_', 'ValInMatrix', 'MatrixSet', 'ResizeMatrix'],
    bounds='objects n<=5 (thorough 6), group counts 1..n including non-dividing, responses <=2, threads <=3 (workers synchronous), iterations <=2 (thorough 3), every user group vector over {0..G-1}^n that uses the largest label (unbalanced, non-contiguous, empty groups included) enumerated by the driver; RNG: arbitrary in-range draws at n=3(4), reduced model (arbitrary unused id per draw) at n<=5(6)',
    outside='termination of rejection sampling (its unwinding assertion is excluded by id: paths with more than the bounded number of rejected draws are not explored), the learners themselves (C03/C04/C07/C08), EPLS, KFoldCV with LDA (unsupported by the library), thread interleavings (C06)',
    stubs=['PLS/MLR/LDA fit + predict: tagging stubs', 'srand_/randInt: arbitrary in-range value per draw', 'pthread_create/join: synchronous'],
    assumptions=['"equals a refit through the public API" holds by construction: the workers are calls of the public learners on (x_train, y_train, x_test), which is what the stubs observe'],
)
TE = [t for t in T]


def obligations(tier):
    obs = []
    th = tier == 'thorough'
    to = 300 if not th else 1800
    def add(id, defs, unwind, ignore=()):
        defs = dict(defs); defs['HP_XC'] = 2 if (defs['HP_ALGO'] == 1 and defs['HP_NY'] == 2) else 1     # PLS with two responses gets two predictors so that nlv=2 is not clamped
        obs.append(Ob(id=id, harness='C05/cv.c', tus=T, defs=defs, engine='bits', unwind=unwind, timeout=to, clause=id.split('/')[0], remove=REMOVE,
                      stubs=('sym_pthread_sync.c',), ignore_props=ignore, object_bits=11))
    AN = ['mlr', 'pls', 'lda']
    for algo in (0, 1, 2):
        for (n, ny, t) in ([(3, 1, 1), (4, 2, 2), (4, 1, 3)] if not th else [(3, 1, 1), (4, 2, 2), (4, 1, 3), (5, 2, 2), (6, 1, 4)]):
            if algo == 2 and ny > 1: continue
            add(f'loo/{AN[algo]}/n{n}ny{ny}t{t}', {'HP_CV': 0, 'HP_ALGO': algo, 'HP_N': n, 'HP_NY': ny, 'HP_T': t, 'HP_NLV': 2, 'HP_G': 1}, n + 4)
    import itertools
    for algo in (0, 1):
        for (n, G, ny, t) in ([(3, 2, 1, 1), (3, 3, 2, 2), (4, 2, 1, 3)] if not th else [(3, 2, 1, 1), (3, 3, 2, 2), (4, 2, 1, 3), (4, 3, 2, 2), (4, 4, 1, 2), (5, 3, 1, 2), (5, 5, 1, 4)]):
            for gv in itertools.product(range(G), repeat=n):
                if G - 1 not in gv: continue              # the largest label is used (smaller G are separate cases); gaps and empty groups allowed
                if not th and algo == 1 and (n == 4 or gv[0] != 0): continue      # quick: PLS on the n=3 vectors starting in group 0; all of them for MLR
                add(f'kfold/{AN[algo]}/n{n}ny{ny}t{t}/groups{"".join(map(str, gv))}', {'HP_CV': 1, 'HP_ALGO': algo, 'HP_N': n, 'HP_NY': ny, 'HP_T': t, 'HP_NLV': 2, 'HP_G': G, 'HP_GROUPS': ','.join(map(str, gv))}, n + 4)
    for algo in (0, 1, 2):
        grid = [(3, 1, 1, 1, 1, 0), (3, 2, 1, 1, 1, 0), (3, 3, 1, 1, 1, 0), (4, 3, 1, 1, 1, 1), (4, 2, 1, 2, 2, 1), (5, 2, 1, 1, 1, 1), (4, 4, 1, 1, 1, 1), (3, 2, 1, 2, 1, 1)] if not th else \
               [(3, 1, 1, 1, 1, 0), (3, 2, 1, 1, 1, 0), (3, 3, 1, 1, 1, 0), (4, 2, 1, 1, 1, 0), (4, 3, 1, 1, 1, 0), (4, 3, 1, 1, 2, 1), (4, 3, 2, 1, 1, 1), (4, 2, 2, 2, 2, 1), (5, 2, 1, 1, 1, 1), (5, 3, 1, 3, 3, 1), (4, 4, 1, 1, 1, 1),
                (5, 4, 2, 2, 2, 1), (6, 4, 1, 2, 4, 1), (6, 5, 1, 1, 2, 1), (5, 5, 1, 1, 1, 1)]
        for (n, g, ny, t, it, distinct) in grid:
            if algo == 2 and ny > 1: continue
            if it % t and (n, g, ny, t, it) != (3, 2, 1, 2, 1): continue      # one case with a thread count that does not divide the iteration count (1 iteration on 2 threads): the averaged predictions must still be the per-object predictions
            add(f'bootstrap/{AN[algo]}/n{n}g{g}ny{ny}t{t}it{it}/{"distinct" if distinct else "arbitrary"}rng', {'HP_CV': 2, 'HP_ALGO': algo, 'HP_N': n, 'HP_NY': ny, 'HP_T': t, 'HP_NLV': 2, 'HP_G': g, 'HP_IT': it, 'HP_RNG_DISTINCT': distinct},
                (2 * n + 3) if not distinct else n + 4, ignore=('random_kfold_group_generator.unwind',) if not distinct else ())
    # result matrices handed in already populated (re-validation): same obligations
    add('prefilled/loo/mlr/n3ny1t1', {'HP_CV': 0, 'HP_ALGO': 0, 'HP_N': 3, 'HP_NY': 1, 'HP_T': 1, 'HP_NLV': 1, 'HP_G': 1, 'HP_PREFILL': 1}, 7)
    add('prefilled/kfold/mlr/n3ny1t1/groups010', {'HP_CV': 1, 'HP_ALGO': 0, 'HP_N': 3, 'HP_NY': 1, 'HP_T': 1, 'HP_NLV': 1, 'HP_G': 2, 'HP_GROUPS': '0,1,0', 'HP_PREFILL': 1}, 7)
    for algo in (0, 1, 2):
        add(f'prefilled/bootstrap/{AN[algo]}/n3g2ny1t1it1', {'HP_CV': 2, 'HP_ALGO': algo, 'HP_N': 3, 'HP_NY': 1, 'HP_T': 1, 'HP_NLV': 1, 'HP_G': 2, 'HP_IT': 1, 'HP_RNG_DISTINCT': 1, 'HP_PREFILL': 1}, 7)
    return obs
