"""C12 — linear solvers, inverses and factorisations satisfy their defining equations (E-REAL + LAPACK contract stubs)."""
from ..core import Ob
T = ['matrix', 'vector', 'memwrapper', 'numeric', 'algebra', 'tensor', 'list', 'interpolate']
META = dict(
    functions=['MatrixMoorePenrosePseudoinverse', 'MatrixInversion', 'SolveLSE', 'MatrixDeterminant', 'OrdinaryLeastSquares', 'MatrixLUInversion', 'SVDlapack', 'conv2matrix', 'EVectEval', 'SVD', 'MatrixPseudoinversion'],
    bounds='MatrixInversion n<=2 (3 in thorough), SolveLSE n<=2 with a re-used solution vector, determinant n<=4 vs the Leibniz sum, least squares (3x1, 3x2, 4x2); Moore-Penrose pseudo-inverse 2x1, 3x1, 3x2 (fresh and re-used result matrix) with the inner SVD-based inverse replaced by its contract; SVD-based pseudo-inverse n<=2 under the SVD contract; LAPACK wrappers: memory safety for square n<=3 and rectangular 3x2 / 2x3 with contract stubs; entries symbolic in [-10,10], |det| >= 1e-2',
    outside='LAPACK numerics, conditioning up to 1e6, determinant multiplicativity (a theorem), Penrose conditions beyond A*pinv(A)=I under the SVD contract (the eigen-based SVD itself is LAPACK: known finding C12_svd_eigen_nonsymmetric), sizes beyond the bound; SolveLSE: entries with magnitude in (0,1e-3) (absolute 1e-4 pivot tests)',
    stubs=['dgetrf_/dgetri_/dgesdd_/dgeev_: contract stubs writing arbitrary values to the documented extents', 'SVD(): contract (orthonormal factors, positive singular values, input = their product) in pinv_composition', 'MatrixPseudoinversion(): contract (two-sided inverse of a non-singular argument) in moore_penrose'],
    assumptions=['known finding C12_no_pivoting: Gauss-Jordan pivots nonzero (MatrixInversion performs no row exchange)'],
)


def obligations(tier):
    obs = []
    th = tier == 'thorough'
    to = 120 if not th else 1800
    R = ('sym_real_env.c',)
    for n in ((1, 2) if not th else (1, 2, 3)):
        obs.append(Ob(id=f'inversion/n{n}', harness='C12/solvers.c', tus=T, defs={'HP_WHICH': 0, 'HP_N': n}, engine='real', unwind=10, timeout=to, clause='M * M^-1 = I',
                      stubs=R, real={'nomissing': True, 'divnz_if_excluded': True}, kf='C12_no_pivoting'))
    for n in (1, 2):
      for k in (3, 5, 7):
        obs.append(Ob(id=f'inversion_small_unit/n{n}/1e-{k}', harness='C12/solvers.c', tus=T, defs={'HP_WHICH': 0, 'HP_N': n, 'HP_SMALL': k}, engine='real', unwind=10, timeout=to, clause='M * M^-1 = I (well conditioned matrix in a small unit)',
                      stubs=R, real={'nomissing': True, 'divnz_if_excluded': True}, kf='C12_no_pivoting'))
    for n in (1, 2):
        obs.append(Ob(id=f'inversion_reused_output/n{n}', harness='C12/solvers.c', tus=T, defs={'HP_WHICH': 0, 'HP_N': n, 'HP_PREFILL': 1}, engine='real', unwind=10, timeout=to, clause='M * M^-1 = I', stubs=R, real={'nomissing': True, 'divnz_if_excluded': True}))
        obs.append(Ob(id=f'solvelse/n{n}', harness='C12/solvers.c', tus=T, defs={'HP_WHICH': 1, 'HP_N': n}, engine='real', unwind=10, timeout=to, clause='A x = b', stubs=R, real={'nomissing': True}))
    for n in ((1, 2, 3) if not th else (1, 2, 3, 4)):
        obs.append(Ob(id=f'determinant/n{n}', harness='C12/solvers.c', tus=T, defs={'HP_WHICH': 2, 'HP_N': n}, engine='real', unwind=12, timeout=to, clause='determinant', stubs=R + ('sym_pow_int.c',), real={'nomissing': True}))
    for (n, p) in ([(3, 1), (4, 1)] if not th else [(3, 1), (4, 1), (3, 2), (4, 2)]):
        for pf in (0, 1):
            obs.append(Ob(id=f'ols/n{n}p{p}/{"reused_output" if pf else "fresh_output"}', harness='C12/solvers.c', tus=T, defs={'HP_WHICH': 3, 'HP_N': n, 'HP_P': p, 'HP_PREFILL': pf}, engine='real', unwind=10, timeout=to, clause='least squares: normal equations',
                          stubs=R, real={'nomissing': True}))
    for n in ((1, 2) if not th else (1, 2, 3)):
      for pf in (0, 1):
        obs.append(Ob(id=f'pinv_composition/n{n}/{"reused_output" if pf else "fresh_output"}', harness='C12/pinv.c', tus=T, defs={'HP_WHICH': 0, 'HP_N': n, 'HP_PREFILL': pf}, engine='real', unwind=10, timeout=to, clause='SVD-based pseudo-inverse = inverse whenever SVD() returns a valid decomposition',
                      remove=('SVD',), stubs=R, real={'nomissing': True}))
    for (r, c) in ([(2, 1), (3, 1), (3, 2)] if not th else [(2, 1), (3, 1), (3, 2), (4, 2), (2, 2)]):
        for pf in (0, 1):
            obs.append(Ob(id=f'moore_penrose/{r}x{c}/{"reused_output" if pf else "fresh_output"}', harness='C12/mp.c', tus=T, defs={'HP_R': r, 'HP_C': c, 'HP_PREFILL': pf}, engine='real', unwind=10, timeout=to,
                          clause='Penrose conditions of MatrixMoorePenrosePseudoinverse', remove=('MatrixPseudoinversion',), stubs=R, real={'nomissing': True}))
    # the finding: the real eigen-based SVD() is not a valid decomposition of a non-symmetric matrix (two unrelated LAPACK eigen-decompositions);
    # LAPACK is not encodable, the recorded witness is re-run natively on every run
    obs.append(Ob(id='pinv_nonsymmetric/n2', harness='C12/pinv.c', tus=T, defs={'HP_WHICH': 1, 'HP_N': 2}, engine='native', timeout=120, clause='A * pinv(A) = I for a non-singular square matrix',
                  kf='C12_svd_eigen_nonsymmetric', kf_witness=True, native_inputs=('d 1', 'd 2', 'd 3', 'd 5')))
    for (r, c) in [(1, 1), (2, 2), (3, 3), (3, 2), (2, 3)]:
        obs.append(Ob(id=f'svdlapack/{r}x{c}', harness='C12/lapack.c', tus=T, defs={'HP_WHICH': 0, 'HP_R': r, 'HP_C': c}, engine='bits', unwind=40, timeout=300, clause='LAPACK wrappers: memory safety and output shapes',
                      stubs=('sym_lapack_contract.c', 'sym_bits_env.c'), kf='C12_svdlapack_rect' if r != c else '', object_bits=10))
    for n in (1, 2, 3):
        for which, nm in ((1, 'luinversion'), (2, 'evecteval')):
            obs.append(Ob(id=f'{nm}/n{n}', harness='C12/lapack.c', tus=T, defs={'HP_WHICH': which, 'HP_R': n, 'HP_C': n}, engine='bits', unwind=40, timeout=300, clause='LAPACK wrappers: memory safety and output shapes',
                          stubs=('sym_lapack_contract.c', 'sym_bits_env.c'), object_bits=10))
    return obs
