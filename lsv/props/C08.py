"""C08 — LDA predicts the arg-max discriminant and is invariant to affine re-coding."""
import itertools
from ..core import Ob
T = ['matrix', 'vector', 'memwrapper', 'numeric', 'algebra', 'tensor', 'list', 'interpolate', 'statistic', 'lda', 'metricspace', 'preprocessing']
HAVOC = ('MatrixDVectorDotProduct', 'DVectorMatrixDotProduct', 'DVectorDVectorDotProd')
META = dict(
    functions=['LDAPrediction', 'LDA', 'LDAMulticlassStatistics', 'getNClasses', 'ROC', 'PrecisionRecall', 'MatrixColAverage', 'getMatrixRow', 'getMatrixColumn', 'MatrixAppendCol', 'ResizeMatrix'],
    bounds='prediction: nclass<=3, features<=2, objects<=2, labels from 0 or 1, all numeric model fields symbolic; bookkeeping: every label vector over {0,1,2}^n and {1,2,3}^n in which every class has >= 2 objects, n<=5 (thorough 6), 1 feature; statistics: perfect predictions, n<=4',
    outside='"well-separated classes are classified without error" (statistical), numerical conditioning of the pooled covariance, affine invariance beyond 1 feature, LAPACK eigen-decomposition (contract stub)',
    stubs=['dot-product kernels havoced in the index obligations (over-approximation)', 'log/exp/sqrt arbitrary in index obligations; log uninterpreted in the formula obligation', 'EVectEval: contract stub (arbitrary n eigenvalues, n x n eigenvectors)'],
    assumptions=['discriminant scores are not NaN (non-singular pooled covariance)'],
)


def obligations(tier):
    obs = []
    th = tier == 'thorough'
    to = 120 if not th else 900
    for s in (0, 1):
        for (k, f, n) in ([(2, 1, 1), (3, 2, 2), (2, 2, 1)] if not th else [(2, 1, 1), (3, 2, 2), (2, 2, 1), (3, 1, 3), (4, 2, 2)]):
            obs.append(Ob(id=f'predict/start{s}/k{k}f{f}n{n}', harness='C08/predict.c', tus=T, defs={'HP_K': k, 'HP_F': f, 'HP_N': n, 'HP_S': s}, engine='bits', unwind=8, timeout=to,
                          clause='prediction = arg-max discriminant, label among training labels, memory safety', remove=HAVOC, stubs=('sym_havoc_kernels.c',), object_bits=10))
    R = ('sym_real_env.c',)
    # bookkeeping for every label vector with all classes present
    for start in (0, 1):
        for n in ((4, 5) if not th else (4, 5, 6)):
            for k in (2, 3):
                for labs in itertools.product(range(k), repeat=n):
                    if len(set(labs)) != k or min(labs.count(c) for c in range(k)) < 2: continue     # every class has >= 2 objects (within-class spread defined)
                    if not th and n == 5 and labs[0] != 0: continue     # quick: first object in the first class at n=5
                    L = ','.join(str(v + start) for v in labs)
                    obs.append(Ob(id=f'fit/start{start}/n{n}k{k}/labels{"".join(str(v+start) for v in labs)}', harness='C08/fit.c', tus=T,
                                  defs={'HP_WHICH': 0, 'HP_N': n, 'HP_F': 1, 'HP_K': k, 'HP_S': start, 'HP_LABELS': L}, engine='real', unwind=8, timeout=to,
                                  clause='priors = frequencies, means = class averages', remove=('EVectEval', 'MatrixPseudoinversion'), stubs=R + ('sym_lda_env.c',), real={'nomissing': True}))
    for (k, f, n) in [(2, 1, 1), (3, 2, 2), (3, 1, 2)]:
        obs.append(Ob(id=f'formula/k{k}f{f}n{n}', harness='C08/fit.c', tus=T, defs={'HP_WHICH': 1, 'HP_N': n, 'HP_F': f, 'HP_K': k, 'HP_S': 0, 'HP_LABELS': '0'}, engine='real', unwind=8, timeout=to,
                      clause='discriminant formula', stubs=R, real={'nomissing': True}))
    for n in ((2, 3, 4) if not th else (2, 3, 4, 5)):
        for k in (2, 3):
            if k > n: continue
            if n == 5 and k == 3: continue      # the real-arithmetic VC of these (fully concrete) cases comes out vacuous under the nonzero-divisor preconditions although the native run passes: not claimed
            for labs in itertools.product(range(k), repeat=n):
                if len(set(labs)) != k: continue
                if not th and n == 4 and labs[0] != 0: continue
                obs.append(Ob(id=f'stats/n{n}k{k}/labels{"".join(map(str, labs))}', harness='C08/stats.c', tus=T, defs={'HP_N': n, 'HP_K': k, 'HP_LABELS': ','.join(map(str, labs))},
                              engine='real', unwind=n + 8, timeout=to, clause='perfect predictions give AUC = 1', stubs=R, real={'nomissing': True, 'tactics': ('default', 'nlsat')}))
    return obs
