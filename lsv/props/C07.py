"""C07 — MLR is ordinary least squares with intercept (E-REAL)."""
from ..core import Ob
T = ['matrix', 'vector', 'memwrapper', 'numeric', 'algebra', 'tensor', 'list', 'interpolate', 'statistic', 'mlr', 'preprocessing', 'metricspace']
META = dict(
    functions=['MLR', 'MLRPredictY', 'OrdinaryLeastSquares', 'MatrixInversion', 'MatrixTranspose', 'MatrixDotProduct', 'MatrixDVectorDotProduct', 'MatrixColAverage', 'MatrixAppendCol'],
    bounds='(objects, predictors) in {(3,1),(4,1)} x responses 1..2 in quick; (4,2),(5,2) in thorough (3x3 Gauss-Jordan inverse: may stay undecided); values symbolic in [-1e3,1e3]',
    outside='rounding and conditioning; R2 in [0,1] as an inequality for 2 predictors; invariance under re-mixing of predictors (consequence of the normal equations for full-rank designs, not separately queried)',
    stubs=['sqrt exact real root'],
    assumptions=['nonzero Gauss-Jordan pivots (no row exchange in MatrixInversion: C12 finding)', 'non-constant responses (TSS >= 1e-6)'],
)


def obligations(tier):
    obs = []
    th = tier == 'thorough'
    to = 200 if not th else 1800
    for (n, p) in ([(3, 1)] if not th else [(3, 1), (4, 1), (4, 2), (5, 2)]):
        for ny in (1, 2):
          for resp in range(ny):
            obs.append(Ob(id=f'mlr/n{n}p{p}ny{ny}/response{resp}', harness='C07/mlr.c', tus=T, defs={'HP_N': n, 'HP_P': p, 'HP_NY': ny, 'HP_RESP': resp}, engine='real', unwind=10, timeout=to if th else 60,      # end to end through the real inversion: undecided at 200 s since the repair of MatrixInversion added row exchanges (kept: it still finds counterexamples within seconds); the decided route is mlr_given_ols/* below
                          clause='normal equations, predictions, R2, SDEC', stubs=('sym_real_env.c',), real={'nomissing': True}))
    for (n, p) in ([(3, 1), (3, 2)] if not th else [(3, 1), (3, 2), (4, 2), (4, 3)]):
        for ny in (1, 2):
          for resp in range(ny):
            obs.append(Ob(id=f'mlr_given_ols/n{n}p{p}ny{ny}/response{resp}', harness='C07/mlr.c', tus=T, defs={'HP_N': n, 'HP_P': p, 'HP_NY': ny, 'HP_RESP': resp, 'HP_OLS_CONTRACT': 1}, engine='real', unwind=10, timeout=to,
                          clause='normal equations, predictions, R2, SDEC (MLR around the least-squares contract)', remove=('OrdinaryLeastSquares',), stubs=('sym_real_env.c',), real={'nomissing': True}))
    for off in ('16777216.0', '134217728.0', '-1000000000.0'):
        for n in ((2, 3) if not th else (2, 3, 4)):
            obs.append(Ob(id=f'ieee_offset/r2/n{n}/off{off}', harness='C07/ieee_offset.c', tus=T, defs={'HP_N': n, 'HP_OFFSET': off}, engine='bits', unwind=8, timeout=300 if not th else 1800,
                          clause='reported R2 in IEEE arithmetic on offset responses', stubs=('sym_bits_env.c', 'sym_sqrt_axioms_bits.c'), object_bits=10))
    return obs
