"""C11 — dense matrix/vector/tensor kernels compute their definitions for all shapes (E-REAL identities + E-BITS)."""
from ..core import Ob
T = ['matrix', 'vector', 'memwrapper', 'numeric', 'algebra', 'tensor', 'interpolate']
K = dict(MATVEC=1, VECMAT=2, OUTER=3, VTV=4, TRANSPOSE=5, TRACE=6, NORM=7, COVARIANCE=8, COLAVG=9, ROWAVG=10, COLVAR=11, COLSDEV=12,
         COLRMS=13, LAW_TP=14, LAW_DIST=15, T_TTV=16, T_VT=17, T_TM=18, T_TM2=19, MT_MATVEC=20, MT_VECMAT=21, DVDOT=22, MINMAX=23)
META = dict(
    functions=['MatrixDotProduct', 'MatrixDotProduct_', 'MatrixDotProduct_LOOP_UNROLLING', 'MatrixDVectorDotProduct', 'DVectorMatrixDotProduct',
               'MT_MatrixDVectorDotProduct', 'MT_DVectorMatrixDotProduct', 'RowColOuterProduct', 'DVectorTrasposedDVectorDotProduct', 'MatrixTranspose',
               'MatrixTrace', 'Matrixnorm', 'DvectorModule', 'DVectorDVectorDotProd', 'MatrixCovariance', 'MatrixColAverage', 'MatrixRowAverage', 'MatrixColVar',
               'MatrixColSDEV', 'MatrixColRMS', 'MatrixColumnMinMax', 'MatrixSort', 'MatrixReverseSort', 'TransposedTensorDVectorProduct',
               'DvectorTensorDotProduct', 'TensorMatrixDotProduct', 'TensorMatrixDotProduct2'],
    bounds='shapes are concrete per query: quick outer dims {1,2} x inner 0..9 (every residue mod 4 on both sides of the unrolling dispatch), thorough outer 1..3 x inner 0..17; tensors 1..3 slices; sorting rows<=4(5) cols<=2; contents symbolic in [-1e6,1e6]; unwind = inner+3',
    outside='rounding error (E-REAL decides the exact-arithmetic statement about the code\'s data flow), values that are MISSING-coded (except the vector outer product obligation), shapes beyond the grid',
    stubs=['sqrt = exact real root', '__builtin_isfinite = 1 (E-REAL)', 'pthread_create = synchronous worker (MT_ kernels; schedules are C13/C06)', 'GetNProcessor via lsci_verif_nproc hook'],
    assumptions=['no data value or product equals the MISSING code 99999999+-0.1 (no-missing-hit), except in the vtv obligation', 'every non-constant divisor is nonzero (none arise here beyond constant counts)'],
)


def obligations(tier):
    obs = []
    thorough = tier == 'thorough'
    inner = range(0, 18) if thorough else range(0, 10)
    outer = [(1, 1), (2, 2), (1, 3), (3, 2)] if thorough else [(1, 1), (2, 2)]
    to = 900 if thorough else 90
    def R(id, kernel, defs, harness='C11/kernels.c', clause='', nomissing=True, stubs=('sym_real_env.c',), unwind=None, **kw):
        d = dict(defs)
        if kernel is not None: d['HP_KERNEL'] = kernel
        u = unwind or max([v for v in d.values() if isinstance(v, int)] + [2]) + 3
        obs.append(Ob(id=id, harness=harness, tus=T, defs=d, engine='real', unwind=u, stubs=stubs, timeout=to, clause=clause, real={'nomissing': nomissing}, **kw))
    for k in inner:
        for (m, p) in outer:
            R(f'matmul/dispatch/{m}x{k}x{p}', None, {'HP_M': m, 'HP_K': k, 'HP_P': p, 'HP_FN': 'MatrixDotProduct'}, harness='C11/matmul.c', clause='matrix product')
        m, p = outer[1]
        R(f'matmul/plain/{m}x{k}x{p}', None, {'HP_M': m, 'HP_K': k, 'HP_P': p, 'HP_FN': 'MatrixDotProduct_'}, harness='C11/matmul.c', clause='matrix product')
        if k >= 4:
            R(f'matmul/unrolled/{m}x{k}x{p}', None, {'HP_M': m, 'HP_K': k, 'HP_P': p, 'HP_FN': 'MatrixDotProduct_LOOP_UNROLLING'}, harness='C11/matmul.c', clause='matrix product')
        for (m, p) in outer[:2]:
            R(f'matvec/{m}x{k}', K['MATVEC'], {'HP_M': m, 'HP_K': k, 'HP_P': 1}, clause='matrix-vector product')
            R(f'vecmat/{k}x{p}', K['VECMAT'], {'HP_M': 1, 'HP_K': k, 'HP_P': p}, clause='vector-matrix product')
        R(f'dvdot/{k}', K['DVDOT'], {'HP_M': 1, 'HP_K': k, 'HP_P': 1}, clause='dot product')
    # multithreaded entry points used inside PCA: same definition, for 1..3 workers (slicing itself is C13)
    for k in ([2, 5] if not thorough else [1, 2, 5, 8]):
        for th in ([1, 2, 3] if not thorough else [1, 2, 3, 5]):
            R(f'mt_matvec/3x{k}/t{th}', K['MT_MATVEC'], {'HP_M': 3, 'HP_K': k, 'HP_P': 1, 'HP_T': th}, clause='matrix-vector product', stubs=('sym_real_env.c', 'sym_pthread_sync.c'))
            R(f'mt_vecmat/{k}x3/t{th}', K['MT_VECMAT'], {'HP_M': 1, 'HP_K': k, 'HP_P': 3, 'HP_T': th}, clause='vector-matrix product', stubs=('sym_real_env.c', 'sym_pthread_sync.c'))
    shapes = [(1, 1), (1, 3), (3, 1), (2, 2), (3, 2)] + ([(4, 3), (2, 5), (5, 2)] if thorough else [])
    for (m, p) in shapes:
        R(f'outer/{m}x{p}', K['OUTER'], {'HP_M': m, 'HP_K': 1, 'HP_P': p}, clause='outer products')
        R(f'vtv/{m}x{p}', K['VTV'], {'HP_M': m, 'HP_K': 1, 'HP_P': p}, clause='outer products', nomissing=False, kf='C11-vtv-index')
        R(f'transpose/{m}x{p}', K['TRANSPOSE'], {'HP_M': m, 'HP_K': 1, 'HP_P': p}, clause='transpose')
        R(f'norm/{m}x{p}', K['NORM'], {'HP_M': m, 'HP_K': 1, 'HP_P': p}, clause='norms')
        R(f'minmax/{m}x{p}', K['MINMAX'], {'HP_M': m, 'HP_K': 1, 'HP_P': p}, clause='column statistics')
        R(f'rowavg/{m}x{p}', K['ROWAVG'], {'HP_M': m, 'HP_K': 1, 'HP_P': p}, clause='row statistics')
        R(f'colavg/{m}x{p}', K['COLAVG'], {'HP_M': m, 'HP_K': 1, 'HP_P': p}, clause='column statistics')
        if m >= 2:
            R(f'colvar/{m}x{p}', K['COLVAR'], {'HP_M': m, 'HP_K': 1, 'HP_P': p}, clause='column statistics')
            R(f'colsdev/{m}x{p}', K['COLSDEV'], {'HP_M': m, 'HP_K': 1, 'HP_P': p}, clause='column statistics')
            R(f'covariance/{m}x{p}', K['COVARIANCE'], {'HP_M': m, 'HP_K': 1, 'HP_P': p}, clause='covariance')
        R(f'colrms/{m}x{p}', K['COLRMS'], {'HP_M': m, 'HP_K': 1, 'HP_P': p}, clause='column statistics')
    for n in ([1, 2, 3, 4] if not thorough else [1, 2, 3, 4, 6]):
        R(f'trace/{n}', K['TRACE'], {'HP_M': n, 'HP_K': 1, 'HP_P': n}, clause='trace')
    for (m, k, p) in ([(2, 2, 2), (1, 5, 2), (2, 4, 1)] if not thorough else [(2, 2, 2), (1, 5, 2), (2, 4, 1), (2, 6, 2), (3, 3, 3), (2, 9, 2)]):
        R(f'law_transpose_product/{m}x{k}x{p}', K['LAW_TP'], {'HP_M': m, 'HP_K': k, 'HP_P': p}, clause='algebraic laws')
        R(f'law_distributive/{m}x{k}x{p}', K['LAW_DIST'], {'HP_M': m, 'HP_K': k, 'HP_P': p}, clause='algebraic laws')
    for o in ([1, 2] if not thorough else [1, 2, 3]):
        for (m, p) in ([(2, 2), (1, 3)] if not thorough else [(2, 2), (1, 3), (3, 2)]):
            for nm, kk in (('ttv', 'T_TTV'), ('vt', 'T_VT'), ('tm', 'T_TM'), ('tm2', 'T_TM2')):
                R(f'tensor_{nm}/o{o}/{m}x{p}', K[kk], {'HP_O': o, 'HP_M': m, 'HP_K': 1, 'HP_P': p}, clause='tensor contractions')
    # memory safety of every kernel under CBMC's bit-precise memory model (the value harnesses with their CHECKs switched off)
    SB = ('sym_bits_env.c', 'sym_pthread_sync.c', 'sym_sqrt_uf_bits.c')
    def S(id, harness, defs, unwind):
        d = dict(defs); d['LSV_SAFETY_ONLY'] = 1
        obs.append(Ob(id='safety/' + id, harness=harness, tus=T, defs=d, engine='bits', unwind=unwind, timeout=300, clause='memory safety of the kernels', stubs=SB, object_bits=10))
    for k in (0, 1, 3, 4, 5, 7):
        S(f'matmul/2x{k}x2', 'C11/matmul.c', {'HP_M': 2, 'HP_K': k, 'HP_P': 2, 'HP_FN': 'MatrixDotProduct'}, k + 4)
    for kn in ('MATVEC', 'VECMAT', 'OUTER', 'VTV', 'TRANSPOSE', 'TRACE', 'NORM', 'COVARIANCE', 'COLAVG', 'ROWAVG', 'COLVAR', 'COLSDEV', 'COLRMS', 'MINMAX', 'DVDOT'):
        for (m, k, p) in ((1, 1, 1), (3, 2, 2), (2, 5, 3)):
            if kn in ('COVARIANCE', 'COLVAR', 'COLSDEV') and m < 2: continue
            if kn == 'TRACE': p = m
            S(f'{kn.lower()}/{m}x{k}x{p}', 'C11/kernels.c', {'HP_KERNEL': K[kn], 'HP_M': m, 'HP_K': k, 'HP_P': p}, max(m, k, p) + 4)
    for kn in ('MT_MATVEC', 'MT_VECMAT'):
        for t in (2, 4):
            S(f'{kn.lower()}/3x2x3/t{t}', 'C11/kernels.c', {'HP_KERNEL': K[kn], 'HP_M': 3, 'HP_K': 2, 'HP_P': 3, 'HP_T': t}, 8)
    for kn in ('T_TTV', 'T_VT', 'T_TM', 'T_TM2'):
        S(f'{kn.lower()}/o2/2x3', 'C11/kernels.c', {'HP_KERNEL': K[kn], 'HP_O': 2, 'HP_M': 2, 'HP_K': 1, 'HP_P': 3}, 8)
    # IEEE-exact side of covariance / variance on offset data (small symbolic part: the SAT instance stays small)
    for off in ('999999.0', '1048576.0', '-65536.5'):
        for (m, p) in ([(2, 1), (3, 1)] if not thorough else [(2, 1), (3, 1), (3, 2), (4, 1)]):      # (the agreement-to-1e-9 and range-bound variants, HP_FULL, were measured undecided at 1800 s)
            obs.append(Ob(id=f'ieee_offset/covariance/{m}x{p}/off{off}', harness='C11/ieee_offset.c', tus=T, defs={'HP_M': m, 'HP_P': p, 'HP_OFFSET': off, 'HP_FULL': 0}, engine='bits', unwind=8, timeout=300 if not thorough else 1800,
                          clause='covariance / variance in IEEE arithmetic on offset data', stubs=('sym_bits_env.c',), object_bits=10))
    # sorting: E-BITS (comparison-only float logic)
    for rows in ([0, 1, 2, 3, 4] if not thorough else [0, 1, 2, 3, 4, 5]):
        for cols in (1, 2):
            for rev in (0, 1):
                obs.append(Ob(id=f'sort/{"rev" if rev else "asc"}/{rows}x{cols}', harness='C11/sort.c', tus=T, defs={'HP_M': rows, 'HP_P': cols, 'HP_REVERSE': rev},
                              engine='bits', unwind=rows + cols + 3, timeout=to, clause='sorting',
                              unwind_goal=('MatrixSort.unwind', 'MatrixReverseSort.unwind') if rows == 0 else ()))      # no rows: the loops must not run at all (a wrapped bound would never return)
    return obs
