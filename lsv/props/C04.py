"""C04 — PLS regression is a correct least-squares family (partly decided: betas = score predictor, monotone RSS, OLS limit for one predictor, equivariance)."""
from ..core import Ob
from . import C03
T = C03.T
META = dict(
    functions=['PLSBetasCoeff', 'PLSScorePredictor', 'PLSYPredictor', 'LVCalc', 'MatrixInversion', 'MatrixDotProduct'],
    bounds='betas vs score predictor: 2..3 predictors, 1..2 latent variables (2x2 Gauss-Jordan inverse), every x; RSS identity and equivariance: X 3x2 (2x2), single response, one latent variable from the invariant loop-head state; OLS limit (normal equations after rank(X) latent variables): one predictor, 2..4 objects (two predictors attempted in thorough); inner relation b = u\'t/t\'t: C03 grid',
    outside='the OLS limit at full rank (a chain over all latent variables: measured out of reach), more than 2 latent variables in the coefficient form, several responses in the RSS identity, rounding',
    stubs=['calcConvergence forced', 'loop-head hook sets the carried y-score to the response column (loop invariant for one response, itself an obligation)'],
    assumptions=['structural facts of PLS on the symbolic model: p_k.w_k = 1, p_i.w_j = 0 for i > j (C03)', 'nonzero divisors'],
)


def obligations(tier):
    obs = []
    th = tier == 'thorough'
    to = 120 if not th else 900
    R = ('sym_real_env.c',)
    for (mm, nlv) in ([(2, 1), (3, 1), (2, 2)] if not th else [(2, 1), (3, 1), (2, 2), (3, 2)]):
        for pf in (0, 1):
            obs.append(Ob(id=f'betas/m{mm}nlv{nlv}/{"reused_output" if pf else "fresh_output"}', harness='C04/betas.c', tus=T, defs={'HP_M': mm, 'HP_NLV': nlv, 'HP_PREFILL': pf}, engine='real', unwind=8, timeout=to, clause='coefficient form = score-based predictor', stubs=R, real={'nomissing': True}))
    for (n, mm) in ([(2, 2), (3, 2)] if not th else [(2, 2), (3, 2), (4, 3)]):
        obs.append(Ob(id=f'rss/{n}x{mm}', harness='C04/rss.c', tus=T, defs={'HP_WHICH': 0, 'HP_N': n, 'HP_M': mm}, engine='real', unwind=8, timeout=to, clause='RSS never increases when a latent variable is added',
                      remove=('calcConvergence',), stubs=R, real={'nomissing': True}))
    for (n, mm) in ([] if not th else [(2, 2), (3, 2)]):      # measured undecided at 120 s: attempted in thorough only
        obs.append(Ob(id=f'equivariance/{n}x{mm}', harness='C04/rss.c', tus=T, defs={'HP_WHICH': 1, 'HP_N': n, 'HP_M': mm}, engine='real', unwind=8, timeout=to, clause='predictions equivariant to scaling of a centred response',
                      remove=('calcConvergence',), stubs=R, real={'nomissing': True}))
    for (n, mm) in ([(2, 1), (3, 1), (4, 1)] if not th else [(2, 1), (3, 1), (4, 1), (5, 1), (3, 2)]):      # two predictors (two deflated passes): measured undecided at 360 s, attempted in thorough only
        obs.append(Ob(id=f'ols_limit/{n}x{mm}', harness='C04/rss.c', tus=T, defs={'HP_WHICH': 2, 'HP_N': n, 'HP_M': mm}, engine='real', unwind=8, timeout=to if mm == 1 else 3 * to, clause='with rank(X) latent variables the PLS fit is the OLS fit (normal equations)',
                      remove=('calcConvergence',), stubs=R, real={'nomissing': True}))
    # inner relation and Y deflation: the C03 latent-variable obligations (part 1)
    for o in C03.obligations(tier):
        if o.id.startswith('lv_pass/') and o.id.endswith('/part1'):
            o.clause = 'inner relation b = u\'t/t\'t and Y deflation'; obs.append(o)
    return obs
