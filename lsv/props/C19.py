"""C19 — spline, trapezoid area and simplex minimiser meet their numerical contracts (E-REAL)."""
from ..core import Ob
T = ['matrix', 'vector', 'memwrapper', 'numeric', 'algebra', 'tensor', 'list', 'interpolate', 'optimization']
META = dict(
    functions=['cubic_spline_interpolation', 'cubic_spline_predict', 'curve_area', 'NelderMeadSimplex'],
    bounds='3..4 knots (5 in thorough), strictly increasing abscissae with gaps in [1e-7,1e7], ordinates symbolic; area n<=5; simplex d in {1,2}, 1..2 iterations, convex quadratic objective with symbolic coefficients',
    outside='rounding; convergence of the simplex to the minimiser; more knots / dimensions than the bound',
    stubs=['sqrt exact real root'],
    assumptions=['nonzero divisors (knot gaps > 0 is assumed, so none is vacuous)'],
)


def obligations(tier):
    obs = []
    th = tier == 'thorough'
    to = 120 if not th else 900
    R = ('sym_real_env.c',)
    for k in ((3, 4) if not th else (3, 4, 5)):
        for line in (0, 1):
            obs.append(Ob(id=f'spline_coefficients/k{k}/{"line" if line else "any"}', harness='C19/spline.c', tus=T, defs={'HP_K': k, 'HP_WHICH': 0, 'HP_LINE': line}, engine='real', unwind=k + 4, timeout=to,
                          clause='natural cubic spline contracts', stubs=R, real={'nomissing': False}))
        for pj in range(k - 1):
          obs.append(Ob(id=f'spline_predict/k{k}/piece{pj}', harness='C19/spline.c', tus=T, defs={'HP_K': k, 'HP_WHICH': 1, 'HP_LINE': 0, 'HP_PJ': pj}, engine='real', unwind=k + 4, timeout=to,
                        clause='evaluation picks the right piece at any scale of x', stubs=R, real={'nomissing': False}))
    import itertools
    for k in ((4,) if not th else (4, 5)):      # >= 4 knots: with 3 knots the search loop has a single candidate piece
        codes = list(range(2 * k - 1))           # knots and midpoints
        orders = [tuple(reversed(codes)), tuple(codes), tuple(codes[1::2] + codes[0::2]), tuple(codes[2:] + codes[:2])]
        if th: orders += list(itertools.islice(itertools.permutations(codes), 0, 120, 7))
        for oi, od in enumerate(dict.fromkeys(orders)):
            obs.append(Ob(id=f'spline_predict_order/k{k}/order{"".join(map(str, od))}', harness='C19/spline.c', tus=T, defs={'HP_K': k, 'HP_WHICH': 2, 'HP_LINE': 0, 'HP_QORDER': ','.join(map(str, od))}, engine='real', unwind=2 * k + 4, timeout=to,
                          clause='evaluation is a pure function of x (any query order in one call)', stubs=R, real={'nomissing': False}))
    obs.append(Ob(id='spline_coefficients_reused_output/k4', harness='C19/spline.c', tus=T, defs={'HP_K': 4, 'HP_WHICH': 0, 'HP_LINE': 0, 'HP_PREFILL': 1}, engine='real', unwind=8, timeout=to, clause='natural cubic spline contracts', stubs=R, real={'nomissing': False}))
    for n in (2, 3, 4, 5):
        obs.append(Ob(id=f'area/n{n}', harness='C15/area.c', tus=T, defs={'HP_N': n}, engine='real', unwind=8, timeout=to, clause='trapezoid area exact and additive', stubs=R, real={'nomissing': True}))
    for (d, it) in ([(1, 1), (1, 2), (2, 1)] if not th else [(1, 1), (1, 2), (1, 3), (2, 1), (2, 2)]):
        for step in (1, 0):
            if step == 0 and (d, it) != (1, 1): continue
            obs.append(Ob(id=f'simplex/d{d}it{it}/{"step" if step else "defaultstep"}', harness='C19/simplex.c', tus=T, defs={'HP_D': d, 'HP_IT': it, 'HP_STEP': step}, engine='bits', unwind=max(it + 1, d + 3), timeout=300 if not th else 1800,
                          clause='simplex: reported value = f(returned point), never worse than the initial best, iteration cap', stubs=('sym_bits_env.c',),
                          unwindset=(f'@optimization|NelderMeadSimplex|while\\s*\\(\\s*iter_\\s*<\\s*iter|{it + 1}',), unwind_goal=('NelderMeadSimplex.unwind',), object_bits=10))
    return obs
