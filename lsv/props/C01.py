"""C01 — PCA is an exact orthogonal decomposition that accounts for all the variance (E-REAL one-pass obligations)."""
from ..core import Ob
T = ['matrix', 'vector', 'memwrapper', 'numeric', 'algebra', 'tensor', 'list', 'interpolate', 'preprocessing', 'pca', 'statistic', 'metricspace']
META = dict(
    functions=['GetResidualMatrix', 'PCA', 'calcVarExpressed', 'PCAScorePredictor', 'PCAIndVarPredictor', 'MatrixPreprocess', 'MatrixColVar', 'DVectNorm', 'DVectorDVectorDotProd', 'MT_MatrixDVectorDotProduct', 'MT_DVectorMatrixDotProduct', 'MatrixDVectorDotProduct', 'DVectorMatrixDotProduct'],
    bounds='n in {2,3,4} x m in {1,2,3} (tall and wide), one pass of the real NIPALS loop per component from an arbitrary loop-head state (t and the carried loading p symbolic), 1..2 components, scaling -1 and 0 (other scalings compose with C10), worker counts 1..2 (compose with C13)',
    outside='rounding; convergence itself and therefore "non-increasing explained variance" and the 100 % total (statements about the limit of the iteration, see C02); shapes beyond the grid; MISSING-coded cells',
    stubs=['calcConvergence: forced exit verdict (one pass per component)', 'LSCI_VERIF_LOOP_HEAD hook: harness overwrites t and p', 'sqrt = exact real root (UF + axioms)', 'pthread_create synchronous'],
    assumptions=['nonzero divisors (t\'t, p\'p, |p| nonzero = "rank >= components requested")', 'no value equals the MISSING code'],
)


def obligations(tier):
    obs = []
    th = tier == 'thorough'
    to = 120 if not th else 900
    R = ('sym_real_env.c', 'sym_pthread_sync.c')
    grid = [(2, 1), (3, 2), (2, 2), (2, 3)] + ([(4, 3), (4, 2), (3, 3), (4, 1)] if th else [])
    for (n, m) in grid:
        for sc in (-1,):
            obs.append(Ob(id=f'pass/{n}x{m}/scaling{sc}', harness='C01/pca_pass.c', tus=T, defs={'HP_MODE': 0, 'HP_N': n, 'HP_M': m, 'HP_SC': sc, 'HP_NPC': 1}, engine='real', unwind=8, timeout=to,
                          clause='one pass: unit loading, score = projection, residual orthogonal, variance bookkeeping', remove=('calcConvergence',), stubs=R, real={'nomissing': True}))
    for (n, m) in ([(3, 2), (2, 2)] if not th else [(3, 2), (2, 2), (2, 3), (4, 3)]):
        obs.append(Ob(id=f'two_components/{n}x{m}', harness='C01/pca_pass.c', tus=T, defs={'HP_MODE': 0, 'HP_N': n, 'HP_M': m, 'HP_SC': -1, 'HP_NPC': 2}, engine='real', unwind=8, timeout=to,
                      clause='bookkeeping across components: second component computed on the deflated matrix, columns written once', remove=('calcConvergence',), stubs=R, real={'nomissing': True}))
        obs.append(Ob(id=f'orthogonality_step/{n}x{m}', harness='C01/pca_pass.c', tus=T, defs={'HP_MODE': 1, 'HP_N': n, 'HP_M': m, 'HP_SC': -1, 'HP_NPC': 1}, engine='real', unwind=8, timeout=to,
                      clause='inductive step: new loading orthogonal to earlier loadings, residual keeps them in its null space', remove=('calcConvergence',), stubs=R, real={'nomissing': True}))
    for which, nm in ((0, 'score_predictor'), (1, 'indvar_predictor')):
        for (n, m, npc) in ([(2, 2, 2), (2, 3, 2)] if not th else [(2, 2, 2), (2, 3, 2), (3, 3, 3), (3, 2, 1)]):
            for pre in (0, 1, 2):
                for t in ((1, 2) if which == 0 else (1,)):
                    for extra in ((0, 1) if pre == 2 else (0,)):
                        obs.append(Ob(id=f'{nm}/{n}x{m}npc{npc}/pre{pre}/t{t}/extra{extra}', harness='C01/predict.c', tus=T, defs={'HP_WHICH': which, 'HP_N': n, 'HP_M': m, 'HP_NPC': npc, 'HP_PRE': pre, 'HP_T': t, 'HP_EXTRA': extra},
                                      engine='real', unwind=8, timeout=to, clause='projection of new/training data; back-transformation', stubs=R, real={'nomissing': True}))
    for which, nm in ((0, 'score_predictor'), (1, 'indvar_predictor')):
        obs.append(Ob(id=f'{nm}_reused_output/2x2npc2', harness='C01/predict.c', tus=T, defs={'HP_WHICH': which, 'HP_N': 2, 'HP_M': 2, 'HP_NPC': 2, 'HP_PRE': 2, 'HP_T': 1, 'HP_EXTRA': 0, 'HP_PREFILL': 1},
                      engine='real', unwind=8, timeout=to, clause='projection of new/training data; back-transformation', stubs=R, real={'nomissing': True}))
    for (n, m, npc, pc) in ([(2, 2, 2, 1), (2, 2, 2, 2), (3, 2, 1, 1), (2, 3, 2, 0)] if not th else [(2, 2, 2, 1), (2, 2, 2, 2), (3, 2, 1, 1), (2, 3, 2, 0), (3, 3, 3, 2), (2, 3, 2, 2)]):
        for scp in (0, 1):
            for pf in (0, 1):
                if pf and (n, m, npc, pc) != (2, 2, 2, 2): continue
                obs.append(Ob(id=f'residual_matrix/{n}x{m}npc{npc}pc{pc}/scaling{scp}/{"reused_output" if pf else "fresh_output"}', harness='C01/residual.c', tus=T,
                              defs={'HP_N': n, 'HP_M': m, 'HP_NPC': npc, 'HP_PC': pc, 'HP_SC': scp, 'HP_PREFILL': pf}, engine='real', unwind=8, timeout=to,
                              clause='preprocessed data = scores x loadings\' + residual (GetResidualMatrix)', stubs=R, real={'nomissing': True}))
    for lem in (1, 2, 3, 4):
        for (n, m) in ([(2, 2), (3, 2), (3, 3)] if not th else [(2, 2), (3, 2), (3, 3), (4, 3), (2, 3)]):
            obs.append(Ob(id=f'lemma{lem}/{n}x{m}', harness='C01/lemmas.c', tus=['memwrapper'], defs={'HP_LEMMA': lem, 'HP_N': n, 'HP_M': m}, engine='real', unwind=6, timeout=to,
                          clause='algebraic closing steps of the chains (opaque variables)', real={'nomissing': False}))
    return obs
