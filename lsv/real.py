#!/usr/bin/env python3
"""lsv.real — E-REAL: CBMC symbolic execution of the real code -> SMT-LIB VC (--smt2 --fpa --outfile)
-> FloatingPoint re-interpreted over the reals -> cone-of-influence slice -> z3 portfolio.

The VC is produced by CBMC from the goto binary of /repo's current sources on every run; this module only
re-sorts the arithmetic (IEEE double -> Real), adds the stated preconditions (nonzero divisors, no-missing-hit),
slices, and asks the solver."""
import os, re, sys, time, subprocess, json
from fractions import Fraction
from .core import Res, PropRes, BuildError, sh, cbmc_cmd, classify

sys.setrecursionlimit(1000000)


_TOK = re.compile(r';[^\n]*|\|[^|]*\||"[^"]*"|[()]|[^\s()]+')


def tokenize(s):
    return [t for t in _TOK.findall(s) if t[0] != ';']


def parse(toks):
    out = []; st = [out]
    for t in toks:
        if t == '(':
            l = []; st[-1].append(l); st.append(l)
        elif t == ')': st.pop()
        else: st[-1].append(t)
    return out


def show(e):
    if isinstance(e, str): return e
    # iterative to survive deep nesting
    out = []; stack = [e]
    while stack:
        x = stack.pop()
        if isinstance(x, str): out.append(x)
        else:
            stack.append(')')
            for y in reversed(x): stack.append(y)
            stack.append('(')
    s = ' '.join(out)
    return s.replace('( ', '(').replace(' )', ')')


def fpconst(s, e, m):
    s = int(s[2:], 2); eb = e[2:]; mb = m[2:]
    if e.startswith('#x'): eb = bin(int(e[2:], 16))[2:].zfill(4 * len(e[2:]))
    if m.startswith('#x'): mb = bin(int(m[2:], 16))[2:].zfill(4 * len(m[2:]))
    ev = int(eb, 2); mv = int(mb, 2); bias = (1 << (len(eb) - 1)) - 1
    if ev == (1 << len(eb)) - 1: raise ValueError('inf/nan constant')
    if ev == 0: v = Fraction(mv, 1 << len(mb)) * Fraction(2) ** (1 - bias)
    else: v = (1 + Fraction(mv, 1 << len(mb))) * Fraction(2) ** (ev - bias)
    return -v if s else v


def rat(v):
    if v < 0: return ['-', rat(-v)]
    if v.denominator == 1: return f'{v.numerator}.0'
    return ['/', f'{v.numerator}.0', f'{v.denominator}.0']


BIN = {'fp.add': '+', 'fp.sub': '-', 'fp.mul': '*', 'fp.div': '/'}
CMP = {'fp.eq': '=', 'fp.lt': '<', 'fp.leq': '<=', 'fp.gt': '>', 'fp.geq': '>='}


class Unsupported(Exception):
    pass


class RW:
    """FloatingPoint -> Real rewriter (sort-aware)"""
    def __init__(s, nomissing=False, divnz=True):
        s.SORT = {}; s.nomissing = nomissing; s.divnz = divnz; s.divs = []; s.nmhits = 0

    def isfp(s, x): return isinstance(x, list) and len(x) == 4 and x[1] == 'FloatingPoint'

    def bvwidth(s, e):
        if isinstance(e, str):
            t = s.SORT.get(e)
            if isinstance(t, list) and len(t) > 2 and t[1] == 'BitVec': return int(t[2])
            if e.startswith('#x'): return 4 * (len(e) - 2)
            if e.startswith('#b'): return len(e) - 2
            return None
        if e and e[0] == '_' and isinstance(e[1], str) and e[1].startswith('bv'): return int(e[2])
        if e and isinstance(e[0], list) and e[0][0] == '_' and e[0][1] == 'extract': return int(e[0][2]) - int(e[0][3]) + 1
        if e and isinstance(e[0], list) and e[0][0] == '_' and e[0][1] in ('zero_extend', 'sign_extend'): return int(e[0][2]) + s.bvwidth(e[1])
        if e and e[0] == 'concat': return sum(s.bvwidth(x) for x in e[1:])
        if e and e[0] == 'ite': return s.bvwidth(e[2])
        for x in e[1:]:
            w = s.bvwidth(x)
            if w: return w
        return None

    def is_fp_expr(s, e):
        if isinstance(e, str): return s.isfp(s.SORT.get(e))
        if not e: return False
        h = e[0]
        if h == 'fp' or (isinstance(h, str) and h.startswith('fp.') and h not in CMP and not h.startswith('fp.is') and not h.startswith('fp.to_')): return True
        if isinstance(h, list) and h[0] == '_' and h[1] in ('to_fp', 'to_fp_unsigned'): return True
        if h == 'ite': return s.is_fp_expr(e[2])
        return False

    def rw(s, e):
        if isinstance(e, str): return e
        if not e: return e
        h = e[0]
        if s.isfp(e): return 'Real'
        if h == 'fp' and len(e) == 4:
            try: return rat(fpconst(*e[1:]))
            except ValueError as x: raise Unsupported(str(x))
        if isinstance(h, str):
            if h in BIN:
                a, b = s.rw(e[2]), s.rw(e[3])
                if h == 'fp.div' and s.divnz and not (isinstance(b, str) and b[0].isdigit()) and not (isinstance(b, list) and b and b[0] == '/' and all(isinstance(z, str) for z in b[1:])):
                    s.divs.append(b)
                return [BIN[h], a, b]
            if h in CMP:
                a, b = e[1], e[2]
                def cv(x):
                    if isinstance(x, list) and x and x[0] == 'fp' and len(x) == 4:
                        try: return fpconst(*x[1:])
                        except ValueError: return None
                    return None
                ca, cb = cv(a), cv(b)
                if s.nomissing and (ca is None) != (cb is None):
                    c = ca if ca is not None else cb
                    if 99999990 <= c <= 100000010:
                        op = CMP[h]
                        if ca is not None: op = {'<': '>', '<=': '>=', '>': '<', '>=': '<=', '=': '='}[op]
                        s.nmhits += 1
                        # "value is not inside the MISSING window 99999999 +- 0.1": it is below the window
                        return 'true' if op in ('<', '<=') else 'false'
                return [CMP[h], s.rw(a), s.rw(b)]
            if h == 'fp.neg': return ['-', s.rw(e[1])]
            if h == 'fp.abs':
                x = s.rw(e[1]); return ['ite', ['>=', x, '0.0'], x, ['-', x]]
            if h in ('fp.isNaN', 'fp.isInfinite'): return 'false'
            if h in ('fp.isNormal',): return ['not', ['=', s.rw(e[1]), '0.0']]
            if h == 'fp.isZero': return ['=', s.rw(e[1]), '0.0']
            if h == 'fp.isNegative': return ['<', s.rw(e[1]), '0.0']
            if h == 'fp.isPositive': return ['>', s.rw(e[1]), '0.0']
            if h == 'fp.min':
                a, b = s.rw(e[1]), s.rw(e[2]); return ['ite', ['<=', a, b], a, b]
            if h == 'fp.max':
                a, b = s.rw(e[1]), s.rw(e[2]); return ['ite', ['>=', a, b], a, b]
            if h.startswith('fp.'): raise Unsupported('unsupported ' + h)
        if isinstance(h, list) and h and h[0] == '_':
            if h[1] == 'to_fp_unsigned': return ['to_real', ['bv2nat', s.rw(e[2])]]
            if h[1] == 'to_fp':
                a = e[-1]
                if s.is_fp_expr(a): return s.rw(a)
                if len(e) == 2: raise Unsupported('to_fp from raw bits')
                w = s.bvwidth(a); x = s.rw(a)
                if not w: raise Unsupported('to_fp width? ' + show(a)[:80])
                return ['to_real', ['ite', ['bvslt', x, ['_', 'bv0', str(w)]], ['-', ['bv2nat', x], str(1 << w)], ['bv2nat', x]]]
            if isinstance(h[1], str) and h[1] in ('fp.to_sbv', 'fp.to_ubv') and len(e) == 3:
                # C cast double -> integer: truncation toward zero (CBMC emits roundTowardZero); value assumed in range
                x = s.rw(e[2]); w = h[2]
                tr = ['ite', ['>=', x, '0.0'], ['to_int', x], ['-', ['to_int', ['-', x]]]]
                return [['_', 'int2bv', w], tr]
            if isinstance(h[1], str) and h[1].startswith('fp.to_'): raise Unsupported('unsupported ' + h[1])
        return [s.rw(x) for x in e]

    def convert(s, src):
        exprs = parse(tokenize(src))
        for e in exprs:
            if e and e[0] in ('declare-fun', 'define-fun'): s.SORT[e[1]] = e[3]
        out = []
        for e in exprs:
            if not e or e[0] in ('get-value', 'exit', 'set-info', 'set-option', 'set-logic'): continue
            if e == ['check-sat']:
                seen = set()
                for d in s.divs:
                    k = show(d)
                    if k not in seen:
                        seen.add(k); out.append(['assert', ['!', ['not', ['=', d, '0.0']], ':named', f'divnz{len(seen)}']])
            out.append(s.rw(e))
        return out


def slice_vc(exprs, witness=False):
    """cone-of-influence slice. Goal asserts = asserts mentioning a CHECK condition variable (lsv_c_); everything else is an
    assumption and is kept iff it (transitively) shares a symbol with the cone. Returns (kept, dropped, n_bv_in_cone, goal text).
    Dropping is exact for unsat; for sat the dropped part is solved separately (disjoint symbols => conjunction sat iff both sat)."""
    defs = {e[1]: e for e in exprs if e and e[0] == 'define-fun'}
    decls = {e[1]: e for e in exprs if e and e[0] == 'declare-fun'}
    def syms(e, acc):
        st = [e]
        while st:
            x = st.pop()
            if isinstance(x, str):
                if x in defs or x in decls: acc.add(x)
            else: st.extend(x)
        return acc
    ci = [i for i, e in enumerate(exprs) if e == ['check-sat']][0]
    asserts = [e for e in exprs[:ci] if e and e[0] == 'assert']
    memo = {}
    def closure(c0):
        work = set(c0); cone = set()
        while work:
            x = work.pop()
            if x in cone: continue
            cone.add(x)
            if x in defs:
                if x not in memo: memo[x] = syms(defs[x][4], set())
                work |= memo[x] - cone
        return cone
    asym = [(a, closure(syms(a[1], set()))) for a in asserts]
    goals = [a for a, ss in asym if any('lsv_c_' in x for x in syms(a[1], set()))]
    if witness:
        kept = [e for e in exprs[:ci] if e[0] in ('declare-fun', 'define-fun', 'assert', 'declare-datatypes', 'declare-sort', 'define-sort')]
        return kept, [], 1, 'witness'
    if not goals:
        plain = [a for a in asserts if not (isinstance(a[1], list) and a[1] and a[1][0] == '!')]
        if not plain: return None, None, 0, ''
        goals = [plain[-1]]
    cone = set()
    for g in goals: cone |= closure(syms(g[1], set()))
    changed = True
    while changed:
        changed = False
        for a, ss in asym:
            if ss & cone and not ss <= cone: cone |= ss; changed = True
    kept = []; dropped = []; nb = 0
    dropcone = set()
    for a, ss in asym:
        if ss and not (ss <= cone): dropcone |= ss
    for e in exprs[:ci]:
        if e[0] in ('declare-fun', 'define-fun'):
            if e[1] in cone:
                kept.append(e)
                t = show(e[3])
                if 'BitVec' in t or 'Array' in t: nb += 1
            if e[1] in dropcone: dropped.append(e)
        elif e[0] == 'assert':
            ss = syms(e[1], set())
            if not ss or ss <= cone: kept.append(e)
            else: dropped.append(e)
        elif e[0] in ('declare-datatypes', 'declare-sort', 'define-sort'): kept.append(e); dropped.append(e)
    return kept, dropped, nb, ' & '.join(show(g[1])[:80] for g in goals[:3])


def components(exprs):
    """split a VC (list of declare/define/assert) into independent sub-problems: connected components of the asserts under
    'shares a free symbol (after unfolding definitions)'. The conjunction is sat iff every component is sat."""
    defs = {e[1]: e for e in exprs if e and e[0] == 'define-fun'}
    decls = {e[1]: e for e in exprs if e and e[0] == 'declare-fun'}
    def syms(e, acc):
        st = [e]
        while st:
            x = st.pop()
            if isinstance(x, str):
                if x in defs or x in decls: acc.add(x)
            else: st.extend(x)
        return acc
    memo = {}
    def closure(c0):
        work = set(c0); cone = set()
        while work:
            x = work.pop()
            if x in cone: continue
            cone.add(x)
            if x in defs:
                if x not in memo: memo[x] = syms(defs[x][4], set())
                work |= memo[x] - cone
        return cone
    asserts = [e for e in exprs if e and e[0] == 'assert']
    parent = {}
    def find(x):
        while parent.setdefault(x, x) != x:
            parent[x] = parent[parent[x]]; x = parent[x]
        return x
    acl = []
    for i, a in enumerate(asserts):
        cl = closure(syms(a[1], set())); acl.append(cl)
        # only DECLARED (free) symbols connect asserts; defined symbols are macros
        free = [x for x in cl if x in decls]
        key = ('a', i); find(key)
        for x in free: parent[find(('s', x))] = find(key)
    groups = {}
    for i, a in enumerate(asserts): groups.setdefault(find(('a', i)), []).append(i)
    out = []
    for g in groups.values():
        cone = set()
        for i in g: cone |= acl[i]
        body = [e for e in exprs if (e[0] in ('declare-fun', 'define-fun') and e[1] in cone) or e[0] in ('declare-datatypes', 'declare-sort', 'define-sort')]
        body += [asserts[i] for i in g]
        nb = sum(1 for e in body if e[0] in ('declare-fun',) and ('BitVec' in show(e[3]) or 'Array' in show(e[3])))
        nr = sum(1 for e in body if e[0] in ('declare-fun',) and 'Real' in show(e[3]))
        out.append((body, nb, nr))
    return out


TACTICS = {
    'nlsat': ('z3-new', '(check-sat-using (then simplify solve-eqs (par-or qfnra-nlsat smt)))'),
    'default': ('z3-new', '(check-sat)'),
    'old-nlsat': ('z3', '(check-sat-using (then simplify solve-eqs qfnra-nlsat))'),
    'old-default': ('z3', '(check-sat)'),
}


def solve(body, workbase, timeout, order=('nlsat', 'default'), want_model_syms=()):
    """portfolio: first definite answer wins. returns (verdict, solver name, secs, model dict, log)"""
    log = []
    total = 0.0
    gv = ''
    if want_model_syms:
        gv = '(get-value (' + ' '.join(want_model_syms) + '))\n'
    for name in order:
        cmd, tail = TACTICS[name]
        fn = f'{workbase}.{name}.smt2'
        with open(fn, 'w') as f:
            f.write('(set-option :pp.decimal true)\n(set-option :pp.decimal_precision 30)\n' + body + '\n' + tail + '\n' + gv)
        rc, o, e, dt = sh([cmd, '-T:%d' % max(1, int(timeout)), fn], timeout=timeout + 5)
        total += dt
        lines = o.strip().split('\n') if o.strip() else ['timeout' if rc == -9 else '?']
        v = lines[0].strip()
        has_err = any(l.startswith('(error') for l in lines if 'model is not available' not in l)
        log.append(f'{name}:{v}:{dt:.1f}s')
        try: os.remove(fn)
        except OSError: pass
        if v in ('sat', 'unsat') and not has_err:
            model = {}
            if v == 'sat' and want_model_syms:
                txt = '\n'.join(lines[1:])
                try:
                    for ent in parse(tokenize(txt)):
                        for pair in ent:
                            if isinstance(pair, list) and len(pair) == 2: model[pair[0]] = pair[1]
                except Exception: pass
            return v, name, total, model, log
    return 'undecided', '', total, {}, log


def num_of(e):
    """numeric value of a z3 model term printed with pp.decimal"""
    if isinstance(e, str):
        t = e.rstrip('?')
        try: return float(t)
        except ValueError:
            if t.startswith('#x'): return int(t[2:], 16)
            if t.startswith('#b'): return int(t[2:], 2)
            return None
    if e and e[0] == '-' and len(e) == 2:
        v = num_of(e[1]); return -v if v is not None else None
    if e and e[0] == '/' and len(e) == 3:
        a, b = num_of(e[1]), num_of(e[2])
        return a / b if a is not None and b else None
    if e and e[0] == '_' and isinstance(e[1], str) and e[1].startswith('bv'): return int(e[1][2:])
    return None


def input_symbols(exprs):
    """harness input slots -> VC symbols: |goto_symex::return_value::lsv_d!0#K| is the K-th call (1-based) of lsv_d"""
    out = {}
    for e in exprs:
        if e and e[0] in ('define-fun', 'declare-fun') and isinstance(e[1], str):
            m = re.match(r'^\|goto_symex::return_value::lsv_([di])!0#(\d+)\|$', e[1])
            if m: out[(m.group(1), int(m.group(2)) - 1)] = e[1]
    return out


def run_real(ctx, ob, extra_defs=None):
    t0 = time.time()
    try:
        gb = ctx.link(ob, extra_defs)
    except BuildError as x:
        return Res(ob, 'error', detail=str(x), secs=time.time() - t0)
    base = ['cbmc', gb, '--function', 'harness', '--unwind', str(ob.unwind)]
    if ob.unwindset:
        try: base += ['--unwindset', ','.join(ctx.resolve_unwindset(ob))]
        except BuildError as x: return Res(ob, 'error', detail=str(x), secs=time.time() - t0)
    base += ['--no-standard-checks', '--no-malloc-may-fail', '--drop-unused-functions', '--slice-formula'] + list(ob.flags)
    if ob.object_bits: base += ['--object-bits', str(ob.object_bits)]
    rc, out, err, secs = sh(base + ['--unwinding-assertions', '--show-properties', '--json-ui'], timeout=120)
    plist = []
    try:
        for item in json.loads(out):
            if 'properties' in item:
                for p in item['properties']:
                    plist.append((p['name'], p.get('description', ''), p.get('sourceLocation', {})))
    except Exception:
        return Res(ob, 'error', detail='show-properties failed: ' + (out + err)[-800:], secs=time.time() - t0)
    opts = ob.real or {}
    to = ob.timeout
    props, failing, inputs = [], [], None
    solver_secs = 0.0
    witness_ok, has_witness = False, False
    undec = []
    h = os.path.basename(gb)
    unwind_props = [p for p in plist if classify(ob, p[0], p[1]) == 'unwind']
    # E-REAL decides the harness assertions only; memory-model preconditions of libc models (free/realloc) are E-BITS' business
    goals = [p for p in plist if classify(ob, p[0], p[1]) in ('goal', 'witness') and re.search(r'\.assertion\.\d+$', p[0]) and '/harness/' in (p[2] or {}).get('file', '')]
    # unwinding assertions are decided bit-precisely in ONE extra CBMC run (they concern trip counts, not values):
    # user assertions off, standard checks off => only the unwinding assertions remain as properties
    if unwind_props:
        rc, o, e, dt = sh(base + ['--unwinding-assertions', '--no-assertions', '--json-ui', '--verbosity', '4'], timeout=max(60, to))
        solver_secs += dt
        okrun = False
        if rc != -9:
            try:
                from .core import parse_cbmc_json
                results, status, perr = parse_cbmc_json(o)
                bad = [r_['property'] for r_ in (results or []) if r_.get('status') != 'SUCCESS' and classify(ob, r_.get('property', ''), r_.get('description', '')) == 'unwind']
                okrun = results is not None and not bad
                if bad: undec.append(bad[0]); props.append(PropRes(bad[0], 'unwinding assertion', 'undecided', '', info='unwinding bound too small'))
            except Exception: okrun = False
        if not okrun and not undec:
            undec.append('unwind'); props.append(PropRes('unwind', 'unwinding assertions', 'undecided', '', info='unwinding run failed/timeout'))
    base = base + ['--no-unwinding-assertions']
    budget_end = time.time() + 3 * to      # whole-obligation budget: once it is spent the remaining assertions are reported undecided
    for name, desc, loc in goals:
        role = classify(ob, name, desc)
        if time.time() > budget_end:
            if role == 'witness': has_witness = True; witness_ok = None
            else: props.append(PropRes(name, desc, 'undecided', '', info='obligation budget exhausted')); undec.append(name)
            continue
        locs = f"{os.path.basename(loc.get('file',''))}:{loc.get('line','')}" if loc else ''
        vc = os.path.join(ctx.work, f'vc_{h}_{re.sub(r"[^A-Za-z0-9]", "_", name)}.smt2')
        rc, o, e, dt = sh(base + ['--property', name, '--smt2', '--fpa', '--outfile', vc], timeout=max(60, to))
        if rc == -9 or not os.path.exists(vc):
            props.append(PropRes(name, desc, 'undecided', locs, info='VC export failed/timeout')); undec.append(name); continue
        src = open(vc).read(); os.remove(vc)
        if 'check-sat' not in src:
            # CBMC simplified the property away (trivially true): no VC generated
            if role == 'witness': has_witness = True
            else: props.append(PropRes(name, desc, 'holds', locs, info='trivial (simplified by symex)'))
            continue
        dz = opts.get('divnz', True)
        if opts.get('divnz_if_excluded'): dz = bool(extra_defs and any(k.startswith('LSV_EXCL_') for k in extra_defs))     # the nonzero-divisor precondition IS the excluded region of a listed finding
        r = RW(nomissing=opts.get('nomissing', False), divnz=dz)
        try:
            ex = r.convert(src)
        except Unsupported as x:
            props.append(PropRes(name, desc, 'undecided', locs, info='rewrite: ' + str(x))); undec.append(name); continue
        kept, dropped, nb, goal = slice_vc(ex, witness=(role == 'witness'))
        if kept is None:
            props.append(PropRes(name, desc, 'undecided', locs, info='no goal')); undec.append(name); continue
        insyms = input_symbols(ex)
        keptnames = {k[1] for k in kept if k[0] in ('declare-fun', 'define-fun')}
        want = [s for s in insyms.values() if s in keptnames]
        body = '\n'.join(show(k) for k in kept)
        order = opts.get('tactics', ('nlsat', 'default') if nb == 0 else ('default', 'nlsat'))
        if role == 'witness':
            # reachability: every independent component of the assumptions must be satisfiable
            v, who, st, model, log = 'sat', 'components', 0.0, {}, []
            for ci, (cb, cnb, cnr) in enumerate(components(kept)):
                if not any(x[0] == 'assert' for x in cb): continue
                cv, cw, cst, _, clog = solve('\n'.join(show(k) for k in cb), vc[:-5] + f'_w{ci}', min(to, 60), ('default', 'nlsat') if cnb else ('nlsat', 'default'))
                st += cst; log += clog
                if cv == 'unsat': v = 'unsat'; break
                if cv != 'sat': v = 'undecided'
        else:
            v, who, st, model, log = solve(body, vc[:-5], to, order, want)
        solver_secs += st
        if v == 'sat' and dropped and any(d[0] == 'assert' for d in dropped):
            # the sliced-away assumptions share no symbol with the cone: the whole VC is sat iff they are sat too
            v2, who2, st2, _, log2 = solve('\n'.join(show(k) for k in dropped), vc[:-5] + '_rest', min(to, 60), ('default',))
            solver_secs += st2; log += ['rest:' + x for x in log2]
            if v2 == 'unsat': v = 'unsat'; who += '+rest-unsat'
            elif v2 != 'sat': v = 'undecided'
        if role == 'witness':
            has_witness = True
            if v == 'sat': witness_ok = True
            elif v == 'undecided': witness_ok = None
            continue
        if role == 'unwind':
            if v == 'sat': undec.append(name); props.append(PropRes(name, desc, 'undecided', locs, info='unwinding bound too small'))
            elif v == 'undecided': undec.append(name); props.append(PropRes(name, desc, 'undecided', locs, info='unwinding assertion undecided'))
            continue
        if v == 'unsat':
            props.append(PropRes(name, desc, 'holds', locs, secs=st, info=f'{who} bytes={len(body)} bv={nb} miss={r.nmhits} div={len(set(show(d) for d in r.divs))}'))
        elif v == 'sat':
            props.append(PropRes(name, desc, 'violated', locs, secs=st, info=who))
            failing.append((name, desc, locs))
            if inputs is None:
                lines = []
                nd = max([k[1] for k in insyms if k[0] == 'd'] + [-1]) + 1
                ni = max([k[1] for k in insyms if k[0] == 'i'] + [-1]) + 1
                # harness draws are interleaved; E-REAL harnesses draw all doubles via lsv_d and all sizes via lsv_i;
                # the replay file is written as tagged lines and the replay reader consumes by tag order per kind
                for k in range(nd):
                    s_ = insyms.get(('d', k)); val = num_of(model.get(s_)) if s_ in model else None
                    lines.append(('d %.17g' % val) if val is not None else 'd ?')
                for k in range(ni):
                    s_ = insyms.get(('i', k)); val = num_of(model.get(s_)) if s_ in model else None
                    lines.append(('i %d' % int(val)) if val is not None else 'i ?')
                inputs = lines
        else:
            props.append(PropRes(name, desc, 'undecided', locs, secs=st, info=' '.join(log))); undec.append(name)
    res = Res(ob, 'holds', props=props, secs=time.time() - t0, solver_secs=solver_secs, inputs=inputs, failing=failing)
    if failing:
        res.status = 'violated'; res.detail = '; '.join(f'{d} @{l}' for _, d, l in failing[:4])
    elif undec:
        res.status = 'undecided'; res.detail = 'undecided assertions: ' + '; '.join(f'{p.desc}[{p.info}]' for p in props if p.status == 'undecided')[:400]
    elif not has_witness:
        res.status = 'error'; res.detail = 'harness has no WITNESS()'
    elif witness_ok is False:
        res.status = 'vacuous'; res.detail = 'witness VC unsat: assumptions unsatisfiable over the reals'
    elif witness_ok is None:
        res.status = 'undecided'; res.detail = 'witness VC undecided'
    return res
