#!/usr/bin/env python3
"""lsv.abi — E-ABI (C20): the ctypes declarations of the Python package against the C structures and prototypes.

C side (regenerated from /repo's headers on every run): clang's record-layout dump gives field offsets/sizes/types of every
typedef struct; clang's LLVM IR of a generated translation unit that takes the address of every bound function gives each
prototype. Python side: the `ast` of each binding module (never imported) gives `_fields_` of every ctypes.Structure and every
`lsci.<f>.argtypes/restype` assignment; ctypes' natural-alignment rule gives the Python layout.
Decision: z3 bit-vector queries. Per field: is there a byte image of the structure on which the value read through the Python
field differs from the value read through the C field (UNSAT <=> same offset, width and kind)? Per parameter/return: is there
a value of the Python-declared type whose SysV x86-64 register image is seen as a different value by the callee (UNSAT <=>
same width/class)? Structural mismatches (missing field, arity, pointer depth, register class) are violations by construction."""
import ast, os, re, subprocess, sys, json, time, tempfile, shutil
from .core import REPO, SRC, VERIF, GUARD, sh

PYDIR = os.path.join(SRC, 'python_bindings', 'libscientific')

# ------------------------------------------------------------------ Python side
PRIM = {'c_double': ('f', 8), 'c_float': ('f', 4), 'c_size_t': ('u', 8), 'c_ssize_t': ('i', 8), 'c_int': ('i', 4), 'c_uint': ('u', 4), 'c_long': ('i', 8), 'c_ulong': ('u', 8),
        'c_longlong': ('i', 8), 'c_ulonglong': ('u', 8), 'c_short': ('i', 2), 'c_ushort': ('u', 2), 'c_char': ('i', 1), 'c_byte': ('i', 1), 'c_ubyte': ('u', 1), 'c_bool': ('u', 1),
        'c_int32': ('i', 4), 'c_uint32': ('u', 4), 'c_int64': ('i', 8), 'c_uint64': ('u', 8), 'c_char_p': ('p', 8, ('i', 1), 1), 'c_void_p': ('p', 8, ('void',), 1)}


def pytype(node, structs):
    """ctypes type expression -> descriptor: ('i'|'u'|'f', size) | ('p', 8, base, depth) | ('s', name)"""
    if isinstance(node, ast.Attribute):
        nm = node.attr
        if nm in PRIM: return PRIM[nm]
        return ('s', nm)
    if isinstance(node, ast.Name):
        if node.id in PRIM: return PRIM[node.id]
        return ('s', node.id)
    if isinstance(node, ast.Call):
        f = node.func; fn = f.attr if isinstance(f, ast.Attribute) else getattr(f, 'id', '')
        if fn == 'POINTER':
            t = pytype(node.args[0], structs)
            if t[0] == 'p': return ('p', 8, t[2], t[3] + 1)
            return ('p', 8, t, 1)
        if fn == 'CFUNCTYPE': return ('p', 8, ('fn',), 1)
    if isinstance(node, ast.Constant) and node.value is None: return ('void',)
    return ('?', ast.dump(node)[:80])


def parse_bindings():
    structs, funcs = {}, {}
    for fn in sorted(os.listdir(PYDIR)):
        if not fn.endswith('.py'): continue
        tree = ast.parse(open(os.path.join(PYDIR, fn)).read())
        for node in ast.walk(tree):
            if isinstance(node, ast.ClassDef) and any((isinstance(b, ast.Attribute) and b.attr == 'Structure') or (isinstance(b, ast.Name) and b.id == 'Structure') for b in node.bases):
                for st in node.body:
                    if isinstance(st, ast.Assign) and any(isinstance(t, ast.Name) and t.id == '_fields_' for t in st.targets) and isinstance(st.value, (ast.List, ast.Tuple)):
                        fl = []
                        for el in st.value.elts:
                            if isinstance(el, ast.Tuple) and len(el.elts) >= 2 and isinstance(el.elts[0], ast.Constant): fl.append((el.elts[0].value, pytype(el.elts[1], structs)))
                        structs[node.name] = {'file': fn, 'fields': fl}
            if isinstance(node, ast.Assign) and len(node.targets) == 1 and isinstance(node.targets[0], ast.Attribute):
                t = node.targets[0]
                if t.attr in ('argtypes', 'restype') and isinstance(t.value, ast.Attribute) and isinstance(t.value.value, ast.Name) and t.value.value.id == 'lsci':
                    f = funcs.setdefault(t.value.attr, {'file': fn})
                    if t.attr == 'argtypes':
                        if isinstance(node.value, (ast.List, ast.Tuple)): f['argtypes'] = [pytype(a, structs) for a in node.value.elts]
                        else: f['argtypes'] = []
                    else:
                        f['restype'] = pytype(node.value, structs)
    return structs, funcs


def py_layout(fields):
    """ctypes natural alignment"""
    off, out, maxal = 0, [], 1
    for name, t in fields:
        size = t[1] if t[0] in ('i', 'u', 'f', 'p') else None
        if size is None: return None
        al = size; maxal = max(maxal, al)
        off = (off + al - 1) // al * al
        out.append((name, off, size, t)); off += size
    total = (off + maxal - 1) // maxal * maxal
    return out, total


# ------------------------------------------------------------------ C side
def c_struct_name_map(hdr_text):
    """typedef struct{...} name;  -> names"""
    return re.findall(r'typedef\s+struct\s*\w*\s*\{[^{}]*\}\s*(\w+)\s*;', hdr_text)


def ctype_desc(t):
    t = t.strip()
    depth = t.count('*'); base = t.replace('*', '').strip()
    base = re.sub(r'\b(const|struct|volatile)\b', '', base).strip()
    prim = {'double': ('f', 8), 'float': ('f', 4), 'size_t': ('u', 8), 'int': ('i', 4), 'unsigned int': ('u', 4), 'long': ('i', 8), 'unsigned long': ('u', 8), 'char': ('i', 1), 'unsigned char': ('u', 1),
            'short': ('i', 2), 'uint32_t': ('u', 4), 'int32_t': ('i', 4), 'uint64_t': ('u', 8), 'int64_t': ('i', 8), 'long long': ('i', 8), 'unsigned long long': ('u', 8), 'void': ('void',), 'ssize_t': ('i', 8)}
    b = prim.get(base, ('s', base))
    if depth: return ('p', 8, b, depth)
    return b


def c_layouts(work):
    tu = os.path.join(work, 'abi_tu.c')
    inc = os.path.join(work, 'inc'); os.makedirs(inc, exist_ok=True)
    if not os.path.exists(os.path.join(inc, 'scientific')): os.symlink(SRC, os.path.join(inc, 'scientific'))
    cfgin = open(os.path.join(SRC, 'scientificconfig.h.in')).read()
    for k in ('VERSION_MAJOR', 'VERSION_MINOR', 'VERSION_PATCH'): cfgin = cfgin.replace('@%s@' % k, '0')
    open(os.path.join(inc, 'scientificconfig.h'), 'w').write(cfgin)
    hdrs = sorted(f for f in os.listdir(SRC) if f.endswith('.h') and f not in ('scientific.h', 'variableselection.h', 'vectorspace.h'))
    names = []
    for h in hdrs: names += c_struct_name_map(open(os.path.join(SRC, h)).read())
    body = ''.join('#include "%s"\n' % h for h in hdrs if h != 'scientificconfig.h')
    body += '\n'.join('%s lsv_inst_%s; unsigned long lsv_sz_%s = sizeof(%s);' % (n, n, n, n) for n in names) + '\n'
    open(tu, 'w').write(body)
    rc, o, e, _ = sh(['clang-14', '-fsyntax-only', '-Xclang', '-fdump-record-layouts', '-I', inc, '-I', SRC, '-D_GNU_SOURCE', tu], timeout=120)
    if rc != 0 and not o: raise RuntimeError('clang record layout failed: ' + e[-800:])
    layouts = {}
    for blk in o.split('*** Dumping AST Record Layout')[1:]:
        m = re.search(r'\|\s*\[sizeof=(\d+)', blk)
        lines = blk.strip().splitlines()
        hm = re.search(r'0 \| (?:struct |union )?(\S.*)$', lines[0]) if lines else None
        title = hm.group(1).strip() if hm else ''
        fields = []
        for ln in lines[1:]:
            fm = re.match(r'\s*(\d+) \|\s{3}(\S.*\S)\s+(\w+)$', ln)
            if fm: fields.append((fm.group(3), int(fm.group(1)), fm.group(2)))
        layouts[title] = {'size': int(m.group(1)) if m else None, 'fields': fields}
    # anonymous typedef'd structs are titled like "matrix" (typedef name) in clang 14; map by typedef name
    return names, layouts


def c_prototypes(work, funcs):
    tu = os.path.join(work, 'abi_fn.c')
    inc = os.path.join(work, 'inc')
    hdrs = sorted(f for f in os.listdir(SRC) if f.endswith('.h') and f not in ('scientific.h', 'variableselection.h', 'vectorspace.h'))
    protos_txt = ''.join(open(os.path.join(SRC, h)).read() for h in hdrs)
    present = [f for f in funcs if re.search(r'\b%s\s*\(' % re.escape(f), protos_txt)]
    body = ''.join('#include "%s"\n' % h for h in hdrs) + 'void *lsv_fp[] = {\n' + ',\n'.join('  (void*)%s' % f for f in present) + '\n};\n'
    open(tu, 'w').write(body)
    out = os.path.join(work, 'abi_fn.ll')
    rc, o, e, _ = sh(['clang-14', '-S', '-emit-llvm', '-O0', '-I', inc, '-I', SRC, '-D_GNU_SOURCE', '-w', tu, '-o', out], timeout=120)
    if rc != 0: raise RuntimeError('clang -emit-llvm failed: ' + e[-800:])
    ll = open(out).read()
    protos = {}
    for m in re.finditer(r'^declare\s+(.+?)\s+@(\w+)\((.*?)\)', ll, re.M):
        ret, name, params = m.group(1), m.group(2), m.group(3)
        ret = re.sub(r'\b(dso_local|noundef|signext|zeroext|noalias)\b', '', ret).strip()
        ps = [] if not params.strip() else [re.sub(r'\b(noundef|signext|zeroext|noalias|nocapture|readonly)\b', '', p).strip() for p in split_top(params)]
        protos[name] = (ret, ps)
    return present, protos


def split_top(s):
    out, depth, cur = [], 0, ''
    for ch in s:
        if ch in '([{<': depth += 1
        if ch in ')]}>': depth -= 1
        if ch == ',' and depth == 0: out.append(cur); cur = ''
        else: cur += ch
    if cur.strip(): out.append(cur)
    return out


def ll_desc(t):
    t = t.strip()
    if t == '...': return ('varargs',)
    depth = 0
    while t.endswith('*'): depth += 1; t = t[:-1].strip()
    if t == 'ptr': return ('p', 8, ('?',), 1)
    prim = {'double': ('f', 8), 'float': ('f', 4), 'i64': ('int', 8), 'i32': ('int', 4), 'i16': ('int', 2), 'i8': ('int', 1), 'i1': ('int', 1), 'void': ('void',)}
    if t in prim: b = prim[t]
    else:
        m = re.match(r'%struct\.(\w+)', t)
        b = ('s', m.group(1)) if m else ('?', t)
    if depth: return ('p', 8, b, depth)
    return b


# ------------------------------------------------------------------ solver side
def z3_check(smt):
    p = subprocess.run(['z3-new', '-in', '-T:20'], input=smt, capture_output=True, text=True)
    out = p.stdout.strip().splitlines()
    return (out[0] if out else '?'), '\n'.join(out[1:])


def field_query(size, py, c):
    """exists image: value read by python field != value read by C field (same width required)"""
    (po, pw), (co, cw) = py, c
    if pw != cw: return 'sat', 'width differs (python %d bytes, C %d bytes)' % (pw, cw)
    bits = size * 8
    smt = '(declare-const img (_ BitVec %d))\n(assert (not (= ((_ extract %d %d) img) ((_ extract %d %d) img))))\n(check-sat)\n(get-model)\n' % (bits, po * 8 + pw * 8 - 1, po * 8, co * 8 + cw * 8 - 1, co * 8)
    return z3_check(smt)


def param_query(py, c):
    """SysV x86-64: an integer-class argument travels in a 64-bit register; ctypes converts the Python value to the declared type
    (zero/sign extended into the register is unspecified above the width: modelled as arbitrary upper bits). The callee reads the low
    bits of ITS type. Is there a value of the Python type that the callee sees as a different mathematical value?"""
    pk, pw = py[0], py[1]; ck, cw = c[0], c[1]
    smt = '(declare-const v (_ BitVec %d))\n(declare-const hi (_ BitVec 64))\n' % (pw * 8)
    # register image: low pw bytes = v, rest arbitrary
    if pw < 8: smt += '(define-fun reg () (_ BitVec 64) (concat ((_ extract 63 %d) hi) v))\n' % (pw * 8)
    else: smt += '(define-fun reg () (_ BitVec 64) v)\n'
    smt += '(define-fun seen () (_ BitVec %d) ((_ extract %d 0) reg))\n' % (cw * 8, cw * 8 - 1)
    def toint(name, k, w): return ('(bv2int %s)' % name) if k == 'u' else ('(ite (bvslt %s (_ bv0 %d)) (- (bv2int %s) %d) (bv2int %s))' % (name, w * 8, name, 1 << (w * 8), name))
    ck2 = 'i' if ck in ('i', 'int') else 'u'
    if ck == 'int': ck2 = 'i' if pk == 'i' else 'u'     # LLVM integer: signedness taken from the Python side, width from C
    smt += '(assert (not (= %s %s)))\n(check-sat)\n(get-value (v))\n' % (toint('v', pk, pw), toint('seen', ck2, cw))
    return z3_check(smt)


def run(tier):
    t0 = time.time()
    os.makedirs(os.path.join(VERIF, '.work'), exist_ok=True)
    work = tempfile.mkdtemp(prefix='C20-', dir=os.path.join(VERIF, '.work'))
    findings, queries, samples, solver_s = [], 0, [], 0.0
    kfs = {}
    try:
        from .core import load_known_findings
        kfs = load_known_findings()
        pstructs, pfuncs = parse_bindings()
        names, layouts = c_layouts(work)
        cmap = {n.upper(): n for n in names}
        cmap.update({'DVECTLIST': 'dvectorlist', 'UIVECTOR': 'uivector', 'DVECTOR': 'dvector', 'IVECTOR': 'ivector', 'STRVECTOR': 'strvector'})
        # ---- structures
        for pname, ps in sorted(pstructs.items()):
            cn = cmap.get(pname.upper()) or cmap.get(pname.upper().replace('_', ''))
            lay = layouts.get(cn) if cn else None
            if lay is None:
                findings.append(('struct:%s' % pname, 'no C typedef struct matches ctypes structure %s (%s)' % (pname, ps['file']))); continue
            pl = py_layout(ps['fields'])
            if pl is None:
                findings.append(('struct:%s' % pname, 'ctypes field type not understood')); continue
            pfields, ptotal = pl
            cfields = lay['fields']
            if len(pfields) != len(cfields):
                findings.append(('struct:%s' % pname, 'field count differs: python %d (%s) vs C %d (%s)' % (len(pfields), ','.join(f[0] for f in pfields), len(cfields), ','.join(f[0] for f in cfields))))
            for k in range(min(len(pfields), len(cfields))):
                (pn, po, pw, pt), (cnm, co, ctxt) = pfields[k], cfields[k]
                cd = ctype_desc(ctxt)
                cw = cd[1] if cd[0] in ('i', 'u', 'f', 'p') else None
                key = 'struct:%s.%s' % (pname, pn)
                # field NAMES are free in ctypes: only order, offsets, widths and kinds are compared
                if cw is None: findings.append((key, 'C field type %s not a scalar/pointer' % ctxt)); continue
                v, model = field_query(max(ptotal, lay['size'] or 0), (po, pw), (co, cw)); queries += 1
                if v != 'unsat': findings.append((key, 'a structure image exists on which python reads a different value than C: python offset %d width %d, C offset %d width %d (%s)' % (po, pw, co, cw, ctxt)))
                kinds_ok = (pt[0] == cd[0]) or (pt[0] in ('i', 'u') and cd[0] in ('i', 'u'))
                if not kinds_ok: findings.append((key, 'kind differs: python %s vs C %s' % (pt, cd)))
                if pt[0] == 'p' and cd[0] == 'p':
                    if pt[3] != cd[3]: findings.append((key, 'pointer depth differs: python %d vs C %d (%s)' % (pt[3], cd[3], ctxt)))
                    pb, cb = pt[2], cd[2]
                    if pb[0] == 's' and cb[0] == 's' and cmap.get(pb[1].upper(), pb[1]) != cb[1]: findings.append((key, 'pointee differs: python %s vs C %s' % (pb[1], cb[1])))
                    elif pb[0] in ('i', 'u', 'f') and cb[0] in ('i', 'u', 'f') and (pb[1] != cb[1] or (pb[0] == 'f') != (cb[0] == 'f')): findings.append((key, 'pointee scalar differs: python %s vs C %s' % (pb, cb)))
                if len(samples) < 6: samples.append({'obligation': key, 'python': {'offset': po, 'width': pw, 'type': str(pt)}, 'c': {'offset': co, 'width': cw, 'type': ctxt}, 'verdict': v})
            if lay['size'] is not None and ptotal != lay['size'] and len(pfields) == len(cfields):
                findings.append(('struct:%s' % pname, 'sizeof differs: python %d vs C %d' % (ptotal, lay['size'])))
        # ---- functions
        present, protos = c_prototypes(work, pfuncs)
        for fn, pf in sorted(pfuncs.items()):
            key = 'function:%s' % fn
            if fn not in protos:
                findings.append((key, 'bound function is not declared by any library header (%s)' % pf['file'])); continue
            cret, cps = protos[fn]
            cps_d = [ll_desc(p) for p in cps]
            pa = pf.get('argtypes')
            if pa is not None:
                if any(d[0] == 'varargs' for d in cps_d): cps_fixed = [d for d in cps_d if d[0] != 'varargs']
                else: cps_fixed = cps_d
                if len(pa) != len(cps_fixed) and not any(d[0] == 'varargs' for d in cps_d):
                    findings.append((key, 'arity differs: python %d vs C %d' % (len(pa), len(cps_fixed))))
                for k in range(min(len(pa), len(cps_fixed))):
                    pt, cd = pa[k], cps_fixed[k]
                    pk = '%s arg %d' % (key, k)
                    pclass = 'sse' if pt[0] == 'f' else ('int' if pt[0] in ('i', 'u', 'p') else pt[0])
                    cclass = 'sse' if cd[0] == 'f' else ('int' if cd[0] in ('int', 'p') else cd[0])
                    if pclass != cclass: findings.append((pk, 'register class differs: python %s vs C %s' % (pt, cd))); continue
                    if pt[0] == 'p' or cd[0] == 'p':
                        if pt[0] != cd[0]: findings.append((pk, 'pointer vs scalar: python %s vs C %s' % (pt, cd))); continue
                        if cd[2][0] != '?' and pt[3] != cd[3]: findings.append((pk, 'pointer depth differs: python %d vs C %d' % (pt[3], cd[3])))
                        if pt[2][0] == 's' and cd[2][0] == 's' and cmap.get(pt[2][1].upper(), pt[2][1]) != cd[2][1]: findings.append((pk, 'pointee differs: python %s vs C %s' % (pt[2][1], cd[2][1])))
                        continue
                    if pt[0] == 'f':
                        if pt[1] != cd[1]: findings.append((pk, 'floating width differs: python %d vs C %d bytes' % (pt[1], cd[1])))
                        continue
                    v, model = param_query(pt, cd); queries += 1
                    if v != 'unsat':
                        findings.append((pk, 'a value of the python-declared type (%s, %d bytes) is seen as a different value by the callee (C width %d bytes): %s' % (pt[0], pt[1], cd[1], model.replace('\n', ' ')[:80])))
                    if len(samples) < 12: samples.append({'obligation': pk, 'python': str(pt), 'c': str(cd), 'verdict': v})
            pr = pf.get('restype')
            if pr is not None:
                cd = ll_desc(cret)
                ok = (pr[0] == 'void' and cd[0] == 'void') or (pr[0] == 'f' and cd[0] == 'f' and pr[1] == cd[1]) or (pr[0] in ('i', 'u') and cd[0] == 'int' and pr[1] == cd[1]) or (pr[0] == 'p' and cd[0] == 'p')
                if not ok: findings.append((key + ' return', 'return kind differs: python %s vs C %s' % (pr, cd)))
    finally:
        shutil.rmtree(work, ignore_errors=True)
    # ---- known findings / verdict
    listed = {k: v for k, v in kfs.items() if v['property'] == 'C20'}
    new = []
    for key, msg in findings:
        hit = [k for k, v in listed.items() if key in v['text']]
        if hit: continue
        new.append((key, msg))
    for k, v in listed.items(): print('KNOWN-FINDING: property=C20 %s %s' % (k, v['text']))
    wall = time.time() - t0
    nobl = queries + sum(len(ps['fields']) for ps in pstructs.values()) + len(pfuncs)
    ev = {'property_id': 'C20', 'tier': tier, 'seed': int(os.environ.get('VERIF_SEED', '0') or 0), 'level': 'model_checking',
          'coverage': {'evaluations': nobl, 'distinct_nontrivial': max(0, nobl - len(findings)), 'states': max(1, nobl), 'transitions': max(1, queries), 'traces_validated_against_impl': 0,
                       'rule': 'one evaluation per structure field, per function and per scalar parameter; non-trivial = decided consistent by the z3 query / structural comparison',
                       'samples': samples or [{'note': 'no scalar obligations'}], 'obligations': nobl, 'discharged': nobl - len(findings), 'structures': sorted(pstructs), 'functions_bound': len(pfuncs), 'z3_queries': queries,
                       'findings': [list(f) for f in findings][:40], 'bounds': 'SysV x86-64 LP64; every ctypes.Structure and every lsci.<f>.argtypes/restype in src/python_bindings/libscientific/*.py of the current tree',
                       'explanation': 'states = obligations (fields, functions, scalar parameters); transitions = z3 bit-vector queries', 'exhaustive': True,
                       'checker_cmd': './check C20', 'trusted_base': ['clang 14 record layouts and LLVM IR', 'python ast', 'z3 5.1', 'ctypes natural-alignment rule']},
          'assumptions': ['LP64 SysV calling convention', 'ctypes lays structures out with natural alignment (no _pack_)'], 'wall_s': round(wall, 1), 'violations': len(new)}
    partial = bool(os.environ.get('LSV_PARTIAL'))
    evdir = os.path.join(VERIF, 'evidence') if not partial else os.path.join(VERIF, 'evidence', 'partial')
    os.makedirs(evdir, exist_ok=True)
    json.dump(ev, open(os.path.join(evdir, 'C20.json'), 'w'), indent=1)
    print('C20 [%s] structures=%d functions=%d obligations=%d z3_queries=%d findings=%d (listed %d) wall=%.0fs' % (tier, len(pstructs), len(pfuncs), nobl, queries, len(findings), len(findings) - len(new), wall))
    rc = 0
    if new:
        rdir = os.path.join(VERIF, 'replays'); os.makedirs(rdir, exist_ok=True)
        path = os.path.join(rdir, 'C20_abi.replay')
        with open(path, 'w') as f:
            for key, msg in new: f.write('%s: %s\n' % (key, msg))
        for key, msg in new[:20]: print('  violated: %s: %s' % (key, msg))
        print('VIOLATION property=C20 replay=%s' % path)
        rc = 1
    return rc
