#!/usr/bin/env python3
"""lsv.core — solver-based checking of /repo (libscientific): build, CBMC driver (E-BITS), obligations,
known findings, native replay, evidence.  E-REAL (real-arithmetic VCs) lives in lsv.real.

Everything is regenerated from /repo's working tree on every run: goto-cc compiles the real translation
units, harnesses (under /verif/harness) are linked against them, and CBMC / z3 decide the obligations."""
import os, sys, json, subprocess, time, shutil, hashlib, re, threading, tempfile, signal
from concurrent.futures import ThreadPoolExecutor, as_completed
from dataclasses import dataclass, field

REPO = os.environ.get('LSV_REPO', '/repo')
VERIF = os.path.dirname(os.path.dirname(os.path.abspath(__file__)))
SRC = os.path.join(REPO, 'src')
HARNESS = os.path.join(VERIF, 'harness')
GUARD = 'LIBSCIENTIFIC_VERIF'
NCPU = int(os.environ.get('LSV_JOBS', '16'))

CBMC_BASE = ['--no-malloc-may-fail', '--drop-unused-functions', '--slice-formula',
             '--pointer-overflow-check', '--signed-overflow-check', '--undefined-shift-check',
             '--unwinding-assertions']

def sh(cmd, timeout=None, cwd=None, env=None, mem_gb=None):
    """run a command, return (rc, stdout, stderr, seconds); rc = -9 on timeout"""
    t0 = time.time()
    pre = None
    if mem_gb:
        import resource
        def pre():
            os.setsid()
            resource.setrlimit(resource.RLIMIT_AS, (int(mem_gb * 2**30), int(mem_gb * 2**30)))
    else:
        pre = os.setsid
    p = subprocess.Popen(cmd, stdout=subprocess.PIPE, stderr=subprocess.PIPE, cwd=cwd, env=env, preexec_fn=pre)
    try:
        o, e = p.communicate(timeout=timeout)
        rc = p.returncode
    except subprocess.TimeoutExpired:
        try: os.killpg(p.pid, signal.SIGKILL)
        except Exception: pass
        o, e = p.communicate()
        rc = -9
    return rc, o.decode('utf-8', 'replace'), e.decode('utf-8', 'replace'), time.time() - t0


@dataclass
class Ob:
    """one obligation = one harness instance handed to a solver"""
    id: str                      # unique within the property, e.g. 'appendcol/r2c2n1'
    harness: str                 # path under /verif/harness
    tus: list                    # repo translation units (basenames without .c) linked in
    defs: dict = field(default_factory=dict)     # -D macros (HP_ prefix)
    engine: str = 'bits'         # 'bits' (CBMC SAT, IEEE) | 'real' (VC -> reals -> z3)
    remove: tuple = ()           # real functions whose bodies are removed (harness/stub provides them)
    stubs: tuple = ()            # extra stub C files under /verif/harness/stubs
    unwind: int = 8
    unwindset: tuple = ()
    flags: tuple = ()            # extra cbmc flags
    timeout: int = 60
    clause: str = ''             # which clause of the property this obligation belongs to
    kf: str = ''                 # known-finding id whose region this obligation can exclude (-DLSV_EXCL_<kf>)
    expect_fail: tuple = ()      # labels (substrings) of assertions EXPECTED to fail (finding witnesses)
    ignore_props: tuple = ()     # property-name substrings to ignore (e.g. an unwinding assertion outside the claim)
    real: dict = field(default_factory=dict)     # E-REAL options: nomissing, divnz, tactic
    std_checks: bool = True      # False => --no-standard-checks (concurrency harnesses)
    object_bits: int = 0
    replay_tus: tuple = ()       # TUs for native replay (default: tus)
    kf_witness: bool = False     # this obligation DEMONSTRATES the known finding ob.kf: while the finding is listed, a violation here is the expected outcome
    native_inputs: tuple = ()    # engine 'native': input lines ('d <value>' / 'i <value>') of one concrete run of the harness against the real build
    unwind_goal: tuple = ()      # unwinding assertions (name substrings) that ARE the property: the loop must stay within its bound
    note: str = ''


@dataclass
class PropRes:
    name: str
    desc: str
    status: str        # 'holds' | 'violated' | 'undecided'
    loc: str = ''
    secs: float = 0.0
    info: str = ''


@dataclass
class Res:
    ob: Ob
    status: str                 # 'holds' | 'violated' | 'undecided' | 'error' | 'vacuous'
    props: list = field(default_factory=list)
    secs: float = 0.0
    solver_secs: float = 0.0
    detail: str = ''
    inputs: list = None         # replay input lines for the first violated property
    failing: list = field(default_factory=list)
    replay: dict = None
    rss_kb: int = 0


class Ctx:
    """per-run build context: scratch dir, goto objects of the real TUs, native objects for replays"""
    def __init__(self, prop, tier):
        self.prop, self.tier = prop, tier
        os.makedirs(os.path.join(VERIF, '.work'), exist_ok=True)
        self.work = tempfile.mkdtemp(prefix=f'{prop}-{tier}-', dir=os.path.join(VERIF, '.work'))
        self.inc = os.path.join(self.work, 'inc'); os.makedirs(self.inc)
        self._mk_config()
        self.lock = threading.Lock()
        self.cache = {}
        self.t0 = time.time()

    def _mk_config(self):
        s = open(os.path.join(SRC, 'scientificconfig.h.in')).read()
        cm = open(os.path.join(REPO, 'CMakeLists.txt')).read()
        for k in ('VERSION_MAJOR', 'VERSION_MINOR', 'VERSION_PATCH'):
            m = re.search(r'set\(%s\s+(\d+)\)' % k, cm)
            s = s.replace('@%s@' % k, m.group(1) if m else '0')
        open(os.path.join(self.inc, 'scientificconfig.h'), 'w').write(s)
        # include shim for <scientific/xxx.h> style includes
        os.symlink(SRC, os.path.join(self.inc, 'scientific'))
        # file-local worker-argument structs, extracted textually from the current sources (lsv_structs_<tu>.h)
        for tu in ('matrix', 'metricspace', 'clustering', 'modelvalidation'):
            try: src = open(os.path.join(SRC, tu + '.c')).read()
            except OSError: continue
            out = ['/* generated from /repo/src/%s.c on every run */' % tu]
            for m in re.finditer(r'typedef\s+struct\s*\{[^{}]*\}\s*\w+\s*;', src): out.append(m.group(0))
            open(os.path.join(self.inc, 'lsv_structs_%s.h' % tu), 'w').write('\n'.join(out) + '\n')

    def cleanup(self):
        shutil.rmtree(self.work, ignore_errors=True)

    def cflags(self):
        return ['-std=gnu99', '-D_GNU_SOURCE', '-D' + GUARD, '-I', self.inc, '-I', SRC, '-I', HARNESS]

    def _once(self, key, fn):
        with self.lock:
            ent = self.cache.get(key)
            if ent is None:
                ent = self.cache[key] = {'lock': threading.Lock(), 'val': None, 'done': False}
        with ent['lock']:
            if not ent['done']:
                ent['val'] = fn(); ent['done'] = True
        return ent['val']

    def goto_tu(self, tu, remove=()):
        """goto object of /repo/src/<tu>.c, optionally with some function bodies removed"""
        def build():
            out = os.path.join(self.work, f'g_{tu}.o')
            rc, o, e, _ = sh(['goto-cc', '-c'] + self.cflags() + [os.path.join(SRC, tu + '.c'), '-o', out], timeout=300)
            if rc != 0: raise BuildError(f'goto-cc {tu}.c failed:\n{e[-2000:]}')
            return out
        base = self._once(('g', tu), build)
        if not remove: return base
        key = ('g', tu, tuple(sorted(remove)))
        def strip():
            names = self.tu_functions(tu)
            rm = [f for f in remove if f in names]
            if not rm: return base
            out = os.path.join(self.work, 'g_%s_%s.o' % (tu, hashlib.md5(','.join(sorted(rm)).encode()).hexdigest()[:8]))
            cmd = ['goto-instrument']
            for f in rm: cmd += ['--remove-function-body', f]
            rc, o, e, _ = sh(cmd + [base, out], timeout=300)
            if rc != 0: raise BuildError(f'goto-instrument remove {rm} from {tu} failed:\n{(o+e)[-2000:]}')
            return out
        return self._once(key, strip)

    def tu_functions(self, tu):
        def listf():
            base = self.goto_tu(tu)
            rc, o, e, _ = sh(['goto-instrument', '--list-goto-functions', base], timeout=120)
            names = set()
            for ln in o.splitlines():
                m = re.match(r'^\s*(\w+)\s*/\*', ln) or re.match(r'^(\w+)$', ln.strip())
                if m: names.add(m.group(1))
            if not names:
                # fall back: regex over the source
                src = open(os.path.join(SRC, tu + '.c')).read()
                names = set(re.findall(r'^\w[\w\s\*]*?\b(\w+)\s*\([^;{]*\)\s*\{', src, re.M))
            return names
        return self._once(('fn', tu), listf)

    def loop_id(self, tu, func, pattern):
        """CBMC loop identifier (func.N) of the loop in <func> whose source line matches <pattern> in the CURRENT source"""
        def find():
            base = self.goto_tu(tu)
            rc, o, e, _ = sh(['goto-instrument', '--show-loops', base], timeout=120)
            src = open(os.path.join(SRC, tu + '.c')).read().splitlines()
            for m in re.finditer(r'Loop (\S+):\s+file \S+ line (\d+) function (\S+)', o):
                lid, line, fn = m.group(1), int(m.group(2)), m.group(3)
                if fn == func and 0 < line <= len(src) and re.search(pattern, src[line - 1]): return lid
            return None
        return self._once(('loop', tu, func, pattern), find)

    def resolve_unwindset(self, ob):
        out = []
        for u in ob.unwindset:
            if u.startswith('@'):
                tu, func, pattern, bound = u[1:].split('|')
                lid = self.loop_id(tu, func, pattern)
                if lid is None: raise BuildError(f'loop matching /{pattern}/ not found in {func} ({tu}.c)')
                out.append(f'{lid}:{bound}')
            else: out.append(u)
        return out

    def goto_c(self, path, defs=None, tag=''):
        """goto object of a harness/stub C file"""
        defs = defs or {}
        key = ('h', path, tuple(sorted(defs.items())), tag)
        def build():
            h = hashlib.md5(repr(key).encode()).hexdigest()[:12]
            out = os.path.join(self.work, f'h_{h}_{os.getpid()}.o')
            cmd = ['goto-cc', '-c'] + self.cflags() + [f'-D{k}={v}' for k, v in defs.items()] + [path, '-o', out]
            rc, o, e, _ = sh(cmd, timeout=300)
            if rc != 0: raise BuildError(f'goto-cc {path} failed:\n{e[-3000:]}')
            return out
        return self._once(key, build)

    def link(self, ob, extra_defs=None):
        defs = dict(ob.defs); defs.update(extra_defs or {}); defs['LSV_MAIN'] = 1
        hpath = os.path.join(HARNESS, ob.harness)
        objs = [self.goto_c(hpath, defs)]
        for s in ob.stubs:
            objs.append(self.goto_c(os.path.join(HARNESS, 'stubs', s), {k: v for k, v in defs.items() if k != 'LSV_MAIN'}))
        for tu in ob.tus:
            objs.append(self.goto_tu(tu, ob.remove))
        h = hashlib.md5((ob.id + repr(sorted(defs.items()))).encode()).hexdigest()[:12]
        out = os.path.join(self.work, f'l_{h}_{os.getpid()}.gb')
        rc, o, e, _ = sh(['goto-cc'] + objs + ['-o', out], timeout=300)
        if rc != 0: raise BuildError(f'link {ob.id} failed:\n{(o+e)[-3000:]}')
        return out

    # ---------------------------------------------------------------- native replay
    def native_tu(self, tu, remove=()):
        def build():
            out = os.path.join(self.work, f'n_{tu}.o')
            san = [] if tu == 'datasets' else ['-fsanitize=address,undefined', '-fno-sanitize-recover=undefined']   # datasets.c is static tables; ASan instrumentation of it takes minutes
            cmd = ['gcc', '-c', '-g', '-O0', '-fno-omit-frame-pointer', '-w'] + san + NATIVE_RENAMES + self.cflags() + [os.path.join(SRC, tu + '.c'), '-o', out]
            rc, o, e, _ = sh(cmd, timeout=300)
            if rc != 0: raise BuildError(f'gcc {tu}.c failed:\n{e[-2000:]}')
            return out
        return self._once(('n', tu), build)

    def native_lib(self):
        """every TU of the library, compiled natively with ASan+UBSan (io.c is linked against the real libsqlite3)"""
        def build():
            tus = library_tus()
            with ThreadPoolExecutor(NCPU) as ex:
                return list(ex.map(self.native_tu, tus))
        return self._once(('nlib',), build)

    def native_link(self, ob, extra_defs=None):
        defs = dict(ob.defs); defs.update(extra_defs or {}); defs['LSV_MAIN'] = 1; defs['LSV_REPLAY'] = 1
        h = hashlib.md5(('n' + ob.id + repr(sorted(defs.items()))).encode()).hexdigest()[:12]
        exe = os.path.join(self.work, f'r_{h}')
        cc = ['gcc', '-g', '-O0', '-fsanitize=address,undefined', '-fno-sanitize-recover=undefined', '-fno-omit-frame-pointer', '-w'] + self.cflags() + [f'-D{k}={v}' for k, v in defs.items()]
        srcs = [os.path.join(HARNESS, ob.harness)] + [os.path.join(HARNESS, 'stubs', s) for s in ob.stubs if not s.startswith('sym_')]
        objs = self.native_lib()
        # harness/stub definitions come first and win over the library's (real functions the harness replaces)
        shim = os.path.join(HARNESS, 'stubs', 'native_pthread_shim.c')
        rc, o, e, _ = sh(cc + NATIVE_RENAMES + srcs + objs + [shim, '-Wl,--allow-multiple-definition', '-o', exe, '-lm', '-llapack', '-lblas', '-lpthread', '-lsqlite3'], timeout=300)
        if rc != 0: raise BuildError(f'native link {ob.id} failed:\n{(o+e)[-3000:]}')
        return exe


# in native replays the library's thread calls are routed through lsv_pthread_* so that a harness model can replace them
# without touching the sanitizer runtime's own use of pthread_create (default: stubs/native_pthread_shim.c forwards to libpthread)
NATIVE_RENAMES = ['-Dpthread_create=lsv_pthread_create', '-Dpthread_join=lsv_pthread_join', '-Dpthread_exit=lsv_pthread_exit']


def library_tus():
    """translation units of the library as listed in src/CMakeLists.txt (Scientific_C_SRCS)"""
    cm = open(os.path.join(SRC, 'CMakeLists.txt')).read()
    m = re.search(r'set\(Scientific_C_SRCS(.*?)\)', cm, re.S)
    return [t[:-2] for t in m.group(1).split() if t.endswith('.c')]


class BuildError(Exception):
    pass


# -------------------------------------------------------------------------------- CBMC (E-BITS)
def cbmc_cmd(gb, ob, extra=(), ctx=None):
    cmd = ['cbmc', gb, '--function', 'harness', '--unwind', str(ob.unwind)]
    if ob.unwindset: cmd += ['--unwindset', ','.join(ctx.resolve_unwindset(ob) if ctx else ob.unwindset)]
    cmd += [f for f in CBMC_BASE]
    if not ob.std_checks:
        cmd = [c for c in cmd if c not in ('--pointer-overflow-check', '--signed-overflow-check', '--undefined-shift-check')]
        cmd += ['--no-standard-checks']
    if ob.object_bits: cmd += ['--object-bits', str(ob.object_bits)]
    cmd += list(ob.flags) + list(extra)
    return cmd


def parse_cbmc_json(out):
    try:
        js = json.loads(out)
    except Exception:
        # truncated output (killed): try to salvage nothing
        return None, None, 'unparseable cbmc output'
    results, prog_err, status = None, [], None
    for item in js:
        if 'result' in item: results = item['result']
        if item.get('messageType') == 'ERROR': prog_err.append(item.get('messageText', ''))
        if 'cProverStatus' in item: status = item['cProverStatus']
    return results, status, '\n'.join(prog_err)


def trace_inputs(trace):
    """read the harness inputs back from a CBMC JSON trace: the k-th return value of lsv_d()/lsv_i() is input k of its kind"""
    lines = []
    for st in trace:
        if st.get('stepType') != 'assignment': continue
        lhs = st.get('lhs', '')
        if lhs not in ('goto_symex$$return_value$$lsv_d', 'goto_symex$$return_value$$lsv_i'): continue
        val = st.get('value', {}); b = val.get('binary')
        if lhs.endswith('lsv_d'):
            lines.append('d ' + (('b' + b) if b and len(b) == 64 else str(val.get('data'))))
        else:
            if b and len(b) == 64:
                u = int(b, 2); lines.append('i %d' % (u - (1 << 64) if u >= (1 << 63) else u))
            else:
                lines.append('i ' + re.sub(r'[a-zA-Z]+$', '', str(val.get('data'))))
    return lines


def classify(ob, name, desc):
    """role of a CBMC property inside an obligation"""
    if 'LSV_WITNESS' in desc: return 'witness'
    for ig in ob.ignore_props:
        if ig in name or ig in desc: return 'ignored'
    if '.unwind.' in name or 'unwinding assertion' in desc:
        for g in ob.unwind_goal:
            if g in name: return 'goal'
        return 'unwind'
    return 'goal'


def run_bits(ctx, ob, extra_defs=None):
    t0 = time.time()
    try:
        gb = ctx.link(ob, extra_defs)
    except BuildError as x:
        return Res(ob, 'error', detail=str(x), secs=time.time() - t0)
    try: cmd = cbmc_cmd(gb, ob, ['--json-ui', '--verbosity', '4'], ctx)
    except BuildError as x: return Res(ob, 'error', detail=str(x), secs=time.time() - t0)
    rc, out, err, secs = sh(['/usr/bin/time', '-f', 'LSVRSS %M'] + cmd, timeout=ob.timeout, mem_gb=float(os.environ.get('LSV_MEM_GB', '12')))
    rss = 0
    m = re.search(r'LSVRSS (\d+)', err)
    if m: rss = int(m.group(1))
    if rc == -9:
        return Res(ob, 'undecided', detail=f'timeout {ob.timeout}s', secs=time.time() - t0, solver_secs=secs, rss_kb=rss)
    results, status, perr = parse_cbmc_json(out)
    if results is None:
        return Res(ob, 'error', detail=f'cbmc rc={rc} {perr[:1500]} {err[-800:]}', secs=time.time() - t0, solver_secs=secs, rss_kb=rss)
    props, failing, witness_ok, has_witness, unwind_fail = [], [], False, False, []
    inputs = None
    for r in results:
        name, desc, st = r.get('property', ''), r.get('description', ''), r.get('status', '')
        loc = r.get('sourceLocation', {})
        locs = f"{os.path.basename(loc.get('file',''))}:{loc.get('line','')}" if loc else ''
        role = classify(ob, name, desc)
        if role == 'witness':
            has_witness = True
            if st == 'FAILURE': witness_ok = True
            continue
        if role == 'ignored': continue
        if role == 'unwind':
            if st == 'FAILURE': unwind_fail.append(name)
            continue
        if st == 'FAILURE':
            props.append(PropRes(name, desc, 'violated', locs))
            failing.append((name, desc, locs))
        elif st == 'SUCCESS':
            props.append(PropRes(name, desc, 'holds', locs))
        else:
            props.append(PropRes(name, desc, 'undecided', locs, info=st))
    res = Res(ob, 'holds', props=props, secs=time.time() - t0, solver_secs=secs, inputs=inputs, failing=failing, rss_kb=rss)
    if failing:
        res.status = 'violated'
        res.detail = '; '.join(f'{d} @{l}' for _, d, l in failing[:4])
        # second run for the first failing assertion WITHOUT formula slicing so that the trace carries every input
        cmd2 = [c for c in cbmc_cmd(gb, ob, ['--json-ui', '--verbosity', '4', '--trace', '--property', failing[0][0]], ctx) if c != '--slice-formula']
        rc2, out2, err2, secs2 = sh(cmd2, timeout=max(ob.timeout, 120), mem_gb=float(os.environ.get('LSV_MEM_GB', '12')))
        res.solver_secs += secs2
        r2, _, _ = parse_cbmc_json(out2) if rc2 != -9 else (None, None, None)
        for r in (r2 or []):
            if r.get('status') == 'FAILURE' and 'trace' in r:
                res.inputs = trace_inputs(r['trace']); break
    elif unwind_fail:
        res.status = 'undecided'; res.detail = 'unwinding bound too small: ' + ','.join(unwind_fail[:3])
    elif has_witness and not witness_ok:
        res.status = 'vacuous'; res.detail = 'reachability witness not reachable: assumptions unsatisfiable'
    elif not has_witness:
        res.status = 'error'; res.detail = 'harness has no WITNESS()'
    return res


def run_native(ctx, ob, extra_defs=None):
    """one concrete execution of a harness against the native build (ASan/UBSan): used only to re-demonstrate a listed known finding
    on its recorded input; the solver-based obligations around it carry the universally quantified part"""
    t0 = time.time()
    try: exe = ctx.native_link(ob, extra_defs)
    except BuildError as x: return Res(ob, 'error', detail=str(x), secs=time.time() - t0)
    inp = os.path.join(ctx.work, 'native_%d.in' % os.getpid())
    open(inp, 'w').write('\n'.join(ob.native_inputs) + '\n')
    env = dict(os.environ); env['ASAN_OPTIONS'] = 'detect_leaks=0'
    rc, o, e, secs = sh([exe, inp], timeout=ob.timeout, env=env)
    txt = (o + e)[-600:]
    if rc == 0: return Res(ob, 'holds', props=[PropRes('native', 'native run of the recorded input', 'holds')], secs=secs, detail=txt[-200:])
    if rc == 77: return Res(ob, 'error', detail='recorded input does not satisfy the harness precondition: ' + txt, secs=secs)
    return Res(ob, 'violated', props=[PropRes('native', 'native run of the recorded input', 'violated')], failing=[('native', txt.strip().splitlines()[-1][:200] if txt.strip() else 'native run failed', '')], inputs=list(ob.native_inputs), secs=secs,
               detail=(txt.strip().splitlines()[-1][:300] if txt.strip() else 'rc=%d' % rc))


# -------------------------------------------------------------------------------- native replay
def write_replay(ctx, ob, res, extra_defs=None, run=True):
    """compile the same harness natively (ASan+UBSan, IEEE doubles) and run it on the solver's inputs.
    returns dict(path, reproduced(bool|None), output)"""
    rdir = os.path.join(VERIF, 'replays'); os.makedirs(rdir, exist_ok=True)
    safe = re.sub(r'[^A-Za-z0-9_.-]', '_', f'{ctx.prop}_{ob.id}')
    path = os.path.join(rdir, safe + '.replay')
    defs = dict(ob.defs); defs.update(extra_defs or {})
    hdr = {'property': ctx.prop, 'obligation': ob.id, 'harness': ob.harness, 'defs': defs, 'tus': list(ob.replay_tus or ob.tus),
           'stubs': list(ob.stubs), 'engine': ob.engine, 'failing': [list(f) for f in res.failing[:6]]}
    with open(path, 'w') as f:
        f.write('# ' + json.dumps(hdr) + '\n')
        for ln in (res.inputs or []): f.write(ln + '\n')
    info = {'path': path, 'reproduced': None, 'output': ''}
    if res.inputs is None:
        info['output'] = 'no input vector extracted'
        return info
    if not run:
        return info
    try:
        exe = ctx.native_link(ob, extra_defs)
    except BuildError as x:
        info['output'] = 'native build failed: ' + str(x)[:500]
        return info
    inp = path + '.in'
    with open(inp, 'w') as f:
        for ln in res.inputs: f.write(ln + '\n')
    env = dict(os.environ); env['ASAN_OPTIONS'] = 'detect_leaks=0:abort_on_error=0'; env['UBSAN_OPTIONS'] = 'print_stacktrace=1'
    rc, o, e, _ = sh([exe, inp, os.environ.get('LSV_REPLAY_TOL', '1e-6')], timeout=120, env=env)
    os.remove(inp)
    txt = (o + e); txt = txt[:2500] + ('\n...\n' + txt[-500:] if len(txt) > 3000 else '')
    info['output'] = txt
    if rc == 0: info['reproduced'] = False
    elif rc == 77: info['reproduced'] = False; info['output'] = 'precondition not met natively: ' + txt
    elif rc == -9: info['reproduced'] = True; info['output'] = 'native run did not terminate in 120 s\n' + txt
    else: info['reproduced'] = True     # CHECK failed (1), sanitizer report, abort/crash
    with open(path, 'a') as f:
        f.write('# native-replay rc=%s reproduced=%s\n' % (rc, info['reproduced']))
        for ln in txt.splitlines()[:30]: f.write('# ' + ln + '\n')
    return info


def replay_file(path):
    """./check --replay <file>: rebuild the harness natively from /repo's current tree and run the recorded inputs"""
    lines = open(path).read().splitlines()
    hdr = json.loads(lines[0][2:])
    ob = Ob(id=hdr['obligation'], harness=hdr['harness'], tus=hdr['tus'], defs=hdr['defs'], stubs=tuple(hdr['stubs']), engine=hdr['engine'])
    ctx = Ctx(hdr['property'], 'replay')
    try:
        res = Res(ob, 'violated', inputs=[l for l in lines[1:] if l and not l.startswith('#')], failing=[tuple(x) for x in hdr['failing']])
        exe = ctx.native_link(ob)
        inp = os.path.join(ctx.work, 'in.txt'); open(inp, 'w').write('\n'.join(res.inputs) + '\n')
        env = dict(os.environ); env['ASAN_OPTIONS'] = 'detect_leaks=0'
        rc, o, e, _ = sh([exe, inp], timeout=120, env=env)
        print(o + e)
        print('replay rc=%d (%s)' % (rc, 'violation reproduced' if rc not in (0, 77) else 'not reproduced'))
        return 1 if rc not in (0, 77) else 0
    finally:
        ctx.cleanup()


# -------------------------------------------------------------------------------- known findings
def load_known_findings():
    """known_findings.txt: 'finding: property=<id> kf=<KF id> <what fails>'  |  'fixed: property=<id> <commit> <what failed>'"""
    kf = {}
    p = os.path.join(VERIF, 'known_findings.txt')
    if os.path.exists(p):
        for ln in open(p):
            ln = ln.strip()
            if ln.startswith('finding:'):
                m = re.match(r'finding:\s+property=(\S+)\s+kf=(\S+)\s+(.*)', ln)
                if m: kf[m.group(2)] = {'property': m.group(1), 'text': m.group(3)}
    return kf


# -------------------------------------------------------------------------------- run a property
_CTX = None
_KFS = {}


def _work(ob):
    from . import real as realmod
    ctx, kfs = _CTX, _KFS
    extra = {}
    if ob.kf and ob.kf in kfs: extra['LSV_EXCL_' + ob.kf] = 1
    if ob.kf_witness: extra = {}          # the witness runs WITHOUT the exclusion
    try:
        if ob.engine == 'native': r = run_native(ctx, ob, extra)
        elif ob.engine == 'real': r = realmod.run_real(ctx, ob, extra)
        else: r = run_bits(ctx, ob, extra)
    except BuildError as x:
        r = Res(ob, 'error', detail=str(x))
    except Exception as x:
        import traceback
        r = Res(ob, 'error', detail='driver exception: ' + traceback.format_exc()[-1500:])
    return r


def run_property(prop, tier, obligations, meta, partial=False):
    """obligations: list[Ob]; meta: dict(functions, bounds, stubs, assumptions, outside, rule)"""
    from . import real as realmod
    t0 = time.time()
    seed = int(os.environ.get('VERIF_SEED', '0') or 0)
    ctx = Ctx(prop, tier)
    kfs = load_known_findings()
    cap = os.environ.get('LSV_TIMEOUT_CAP')      # smoke runs of a tier: every obligation's solver budget is capped (timeouts are then reported as undecided)
    if cap:
        for ob in obligations: ob.timeout = min(ob.timeout, int(cap))
    samp = os.environ.get('LSV_SAMPLE')      # smoke runs: every N-th obligation only (the run is then partial: evidence goes to evidence/partial)
    if samp:
        obligations = obligations[::int(samp)]; partial = True
    results = []
    try:
        # goto objects of the real TUs are built once in the parent; obligations then run in forked worker processes
        # (the E-REAL rewriter is pure Python: threads would serialise on the interpreter lock)
        need = {}
        for ob in obligations:
            for tu in ob.tus: need[(tu, tuple(sorted(ob.remove)))] = 1
        build_err = None
        try:
            with ThreadPoolExecutor(NCPU) as ex:
                list(ex.map(lambda k: ctx.goto_tu(k[0], k[1]), need.keys()))
            if sum(1 for ob in obligations if ob.engine == 'native') > 1:
                ctx.native_lib()      # several native obligations: build the native objects once, before the workers fork
        except BuildError as x:
            build_err = str(x)
        global _CTX, _KFS
        _CTX, _KFS = ctx, kfs
        if build_err:
            results = [Res(ob, 'error', detail=build_err) for ob in obligations]
        else:
            import multiprocessing as mp
            from concurrent.futures import ProcessPoolExecutor
            with ProcessPoolExecutor(NCPU, mp_context=mp.get_context('fork')) as ex:
                futs = {ex.submit(_work, ob): ob for ob in obligations}
                for f in as_completed(futs):
                    try: r = f.result()
                    except Exception as x: r = Res(futs[f], 'error', detail='worker failed: %r' % x)
                    results.append(r)
                    if os.environ.get('LSV_VERBOSE'):
                        print(f'  [{r.status:9s}] {r.ob.id} {r.secs:.1f}s {r.detail[:200]}', flush=True)
        # native replays (parent, sequential; at most 6 per run, the rest are reported on the solver verdict with their inputs)
        nrep = 0
        for r in sorted(results, key=lambda r: r.ob.id):
            if r.status == 'violated' and r.ob.engine == 'native':
                # the native run IS the concrete execution against the real code: keep its inputs as the replay file
                try: r.replay = write_replay(ctx, r.ob, r, {}, run=False); r.replay['reproduced'] = True
                except Exception as x: r.replay = {'path': '', 'reproduced': True, 'output': ''}
                continue
            if r.status != 'violated': continue
            extra = {}
            if r.ob.kf and r.ob.kf in kfs: extra['LSV_EXCL_' + r.ob.kf] = 1
            if nrep < int(os.environ.get('LSV_MAX_REPLAYS', '6')):
                try: r.replay = write_replay(ctx, r.ob, r, extra)
                except Exception as x: r.replay = {'path': '', 'reproduced': None, 'output': 'replay machinery failed: %r' % x}
                nrep += 1
            else:
                try: r.replay = write_replay(ctx, r.ob, r, extra, run=False)
                except Exception as x: r.replay = {'path': '', 'reproduced': None, 'output': ''}
        # witnesses for listed known findings: re-run the obligation WITHOUT the exclusion to show the finding is still there
        kf_seen = {}
        for ob in obligations:
            if ob.kf and ob.kf in kfs and ob.kf not in kf_seen: kf_seen[ob.kf] = ob
        kf_lines = []
        for k, ob in kf_seen.items():
            kf_lines.append(f"KNOWN-FINDING: property={prop} {k} {kfs[k]['text']}")
    finally:
        if not os.environ.get('LSV_KEEP'): ctx.cleanup()
        else: print('work dir kept:', ctx.work)
    results.sort(key=lambda r: r.ob.id)
    for r in results:
        if r.ob.kf_witness and r.ob.kf in kfs:
            if r.status == 'violated':
                r.status = 'known'; print(f'  known finding {r.ob.kf} re-demonstrated by {r.ob.id}: {r.detail[:200]}')
            elif r.status == 'holds':
                print(f'  note: known finding {r.ob.kf} is no longer demonstrated by {r.ob.id} (repaired?)')
    viol = [r for r in results if r.status == 'violated']
    errs = [r for r in results if r.status in ('error', 'vacuous')]
    und = [r for r in results if r.status == 'undecided']
    ok = [r for r in results if r.status in ('holds', 'known')]
    wall = time.time() - t0
    for ln in kf_lines: print(ln)
    # ---- evidence
    nprops = sum(len(r.props) for r in results)
    nprops_ok = sum(1 for r in results for p in r.props if p.status == 'holds')
    samples = []
    for r in (viol[:3] + ok[:4] + und[:2]):
        samples.append({'obligation': r.ob.id, 'clause': r.ob.clause, 'engine': r.ob.engine, 'harness': r.ob.harness, 'defs': r.ob.defs,
                        'status': r.status, 'assertions': [{'desc': p.desc, 'status': p.status, 'loc': p.loc} for p in r.props[:8]],
                        'seconds': round(r.secs, 2), 'detail': r.detail[:300]})
    clauses = {}
    for r in results:
        c = clauses.setdefault(r.ob.clause or 'main', {'obligations': 0, 'holds': 0, 'undecided': 0, 'violated': 0, 'error': 0})
        c['obligations'] += 1
        c['holds' if r.status == 'holds' else 'violated' if r.status == 'violated' else 'undecided' if r.status == 'undecided' else 'error'] += 1
    ev = {
        'property_id': prop, 'tier': tier, 'seed': seed, 'level': 'model_checking',
        'coverage': {
            'evaluations': len(results),
            'distinct_nontrivial': len({r.ob.id for r in ok}),
            'rule': meta.get('rule', 'one evaluation = one solver query set (obligation: harness x concrete shape/case) over the real translation units with symbolic contents; an obligation counts as non-trivial only if every goal assertion is UNSAT-negated AND its reachability witness is SAT (harness end reachable under the assumptions); ids are distinct by construction'),
            'samples': samples,
            'obligations': len(results), 'discharged': len(ok), 'undecided': len(und), 'violated': len(viol), 'errors': len(errs),
            'assertions_checked': nprops, 'assertions_holding': nprops_ok,
            'per_clause': clauses,
            'functions_encoded': meta.get('functions', []),
            'bounds': meta.get('bounds', ''),
            'outside_the_claim': meta.get('outside', ''),
            'stubs': meta.get('stubs', []),
            'solver_seconds': round(sum(r.solver_secs for r in results), 1),
            'max_rss_mb': round(max([r.rss_kb for r in results] + [0]) / 1024, 1),
            'undecided_list': [{'obligation': r.ob.id, 'why': r.detail[:200]} for r in und[:40]],
            'known_findings_excluded': sorted(kf_seen.keys()),
            'checker_cmd': f'./check {prop} --tier {tier}',
            'trusted_base': ['cbmc 6.11 (goto-cc front end, symex, memory model)', 'z3 5.1 / 4.8.12', 'lsv FloatingPoint->Real rewriter and cone slicer (E-REAL only)', 'harness stubs listed under stubs'],
            'exhaustive': False,
        },
        'assumptions': meta.get('assumptions', []),
        'wall_s': round(wall, 1),
        'violations': len(viol),
    }
    # model_checking keys: a 'state' is one verification condition (assertion instance of an obligation) decided by a solver,
    # a 'transition' is one solver/CBMC invocation, traces = counterexamples replayed natively against the real build
    ev['coverage']['states'] = max(1, nprops)
    ev['coverage']['transitions'] = max(1, sum(max(1, len(r.props)) for r in results) + len(results))
    ev['coverage']['traces_validated_against_impl'] = sum(1 for r in viol if (r.replay or {}).get('reproduced') is not None)
    ev['coverage']['explanation'] = 'states = verification conditions decided (assertion instances over all obligations); transitions = solver invocations (one per VC in E-REAL, one per obligation plus one per VC in E-BITS); traces_validated_against_impl = solver counterexamples replayed natively (0 on a run without violations)'
    evdir = os.path.join(VERIF, 'evidence') if not partial else os.path.join(VERIF, 'evidence', 'partial')
    os.makedirs(evdir, exist_ok=True)
    with open(os.path.join(evdir, prop + '.json'), 'w') as f:
        json.dump(ev, f, indent=1)
    # ---- verdict
    print(f'{prop} [{tier}] obligations={len(results)} holds={len(ok)} undecided={len(und)} violated={len(viol)} errors={len(errs)} wall={wall:.0f}s solver={ev["coverage"]["solver_seconds"]}s')
    for r in und[:20]: print(f'  undecided: {r.ob.id}: {r.detail[:160]}')
    for r in errs[:20]: print(f'  ERROR: {r.ob.id}: {r.status} {r.detail[:600]}')
    rc = 0
    for r in viol:
        rp = r.replay or {}
        conf = {True: 'reproduced natively', False: 'NOT reproduced natively (reported on the solver verdict)', None: 'native replay unavailable'}[rp.get('reproduced')]
        print(f'  violated: {r.ob.id}: {r.detail[:300]} [{conf}]')
        print(f'VIOLATION property={prop} replay={rp.get("path","")}')
        rc = 1
    if errs and rc == 0:
        rc = 2
    return rc
